#!/bin/bash
# Offline setup: installs Hypothesis into /venv (if missing) and atheris into /verif/.deps from the local wheelhouse.
set -u
HERE="$(cd "$(dirname "$0")" && pwd)"
cd "$HERE"
WH=/opt/veriftools/wheels
export PIP_NO_INDEX=1
/venv/bin/python -c "import hypothesis" 2>/dev/null || \
  /venv/bin/pip install --no-index --find-links "$WH" hypothesis >/dev/null 2>&1 || \
  /venv/bin/pip install --no-index --find-links "$WH" --target "$HERE/.deps" hypothesis >/dev/null 2>&1
mkdir -p "$HERE/.deps"
PYTHONPATH="$HERE/.deps" /venv/bin/python -c "import atheris" 2>/dev/null || \
  /venv/bin/pip install --no-index --find-links "$WH" --target "$HERE/.deps" atheris >/dev/null 2>&1 || \
  echo "note: atheris not installable here; the C20 fuzz stage will fall back to Hypothesis-only"
PYTHONPATH="$HERE/.deps" /venv/bin/python -c "import yaml" 2>/dev/null || \
  /venv/bin/pip install --no-index --find-links "$WH" --target "$HERE/.deps" pyyaml >/dev/null 2>&1 || true
mkdir -p evidence replays
PYTHONPATH="$HERE:$HERE/.deps" /venv/bin/python -c "import hypothesis, sys; sys.path.insert(0,'/repo/src'); import octave_mcp; print('setup ok: hypothesis', hypothesis.__version__)"
