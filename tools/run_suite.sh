#!/bin/bash
# Run the pinned suite in a worktree of the repository and compare with BASELINE.json stable_pass.
# usage: JOBS=10 run_suite.sh <worktree>   (exit 0 iff no baseline test is newly broken; test_a9_migration needs the real .git and is ignored)
WT="${1:?worktree}"
OUT="$(mktemp -d /var/tmp/octave-suite-XXXXXX)"
trap 'rm -rf "$OUT"' EXIT
cd "$WT" || exit 2
env -u OCTAVE_MCP_VERIF PYTHONPATH="$WT/src" /venv/bin/python -m pytest -q -p no:cacheprovider --timeout=900 --continue-on-collection-errors \
  -o addopts="" -n "${JOBS:-10}" --junitxml="$OUT/junit.xml" >"$OUT/log.txt" 2>&1
/venv/bin/python - "$OUT/junit.xml" <<'PY'
import json, sys, xml.etree.ElementTree as ET
base = json.load(open('/root/.vp/BASELINE.json'))
stable = set(base['stable_pass'])
root = ET.parse(sys.argv[1]).getroot()
passed = set()
for tc in root.iter('testcase'):
    if not any(ch.tag in ('failure', 'error', 'skipped') for ch in tc):
        passed.add(f"{tc.get('classname')}::{tc.get('name')}")
missing = sorted(m for m in stable - passed if 'test_a9_migration' not in m)
for m in missing[:40]:
    print("  BROKEN", m)
print(f"baseline_stable_pass={len(stable)} passing_now={len(stable & passed)} newly_broken={len(missing)} (test_a9_migration ignored: needs the real .git)")
sys.exit(1 if missing else 0)
PY
