#!/bin/bash
# Run the repository's pinned baseline suite (guard off) and compare with /root/.vp/BASELINE.json stable_pass.
# usage: tools/baseline.sh [repo_dir]   (default /repo)
REPO="${1:-/repo}"
OUT="$(mktemp -d /var/tmp/octave-baseline-XXXXXX)"
trap 'rm -rf "$OUT"' EXIT
cd "$REPO" || exit 2
env -u OCTAVE_MCP_VERIF /venv/bin/python -m pytest -q -p no:cacheprovider --timeout=900 --continue-on-collection-errors \
  -o addopts="" -n "${BASELINE_JOBS:-12}" --junitxml="$OUT/junit.xml" >"$OUT/log.txt" 2>&1
tail -3 "$OUT/log.txt"
/venv/bin/python - "$OUT/junit.xml" <<'PY'
import json, sys, xml.etree.ElementTree as ET
base = json.load(open('/root/.vp/BASELINE.json'))
stable = set(base['stable_pass'])
root = ET.parse(sys.argv[1]).getroot()
passed = set()
for tc in root.iter('testcase'):
    if not any(ch.tag in ('failure', 'error', 'skipped') for ch in tc):
        passed.add(f"{tc.get('classname')}::{tc.get('name')}")
missing = sorted(stable - passed)
print(f"stable_pass={len(stable)} passing_now={len(stable & passed)} broken={len(missing)}")
for m in missing[:40]:
    print("  BROKEN", m)
sys.exit(1 if missing else 0)
PY
