#!/usr/bin/env python3
"""Developer tool: confirm a seeded regression produced by a sub-agent and run checks against it.

usage: tools/try_seed.py <PID> <variant> [--checks C01,C02] [--src /tmp/wt-out] [--skip-verify]

1. in a scratch worktree of /repo (outside /repo and /verif): apply patch, run the pinned suite (must keep every
   baseline test passing), run demo.py (must exit 1), revert, run demo.py (must exit 0); worktree removed afterwards;
2. apply the patch to /repo, run `./check <ID> --tier quick` for the requested properties, undo (git checkout -- .);
3. store patch.diff, demo.py, notes.md and meta.json under /verif/seeded/<PID>-<variant>/.
"""
import argparse
import json
import os
import shutil
import subprocess
import sys
import time

VERIF = os.path.dirname(os.path.dirname(os.path.abspath(__file__)))


def sh(cmd, **kw):
    return subprocess.run(cmd, shell=True, text=True, capture_output=True, **kw)


def main():
    ap = argparse.ArgumentParser()
    ap.add_argument("pid")
    ap.add_argument("variant")
    ap.add_argument("--checks", default=None)
    ap.add_argument("--src", default="/tmp/wt-out")
    ap.add_argument("--skip-verify", action="store_true")
    ap.add_argument("--tier", default="quick")
    ap.add_argument("--wt", action="store_true", help="apply the change to a private worktree (VERIF_REPO) instead of /repo, so several seeds can be tried at once")
    a = ap.parse_args()
    name = f"{a.pid}-{a.variant}"
    dst = os.path.join(VERIF, "seeded", name)
    src = os.path.join(a.src, a.pid, a.variant)
    if not os.path.exists(os.path.join(src, "patch.diff")):
        src = dst
    patch = os.path.join(src, "patch.diff")
    demo = os.path.join(src, "demo.py")
    meta_path = os.path.join(dst, "meta.json")
    meta = json.load(open(meta_path)) if os.path.exists(meta_path) else {"property": a.pid, "variant": a.variant}
    if not a.wt and sh("git -C /repo status --porcelain --untracked-files=no").stdout.strip():
        print("refusing: /repo has uncommitted changes")
        return 2

    if not a.skip_verify:
        wt = f"/tmp/wt/verify-{name}"
        sh(f"git -C /repo worktree remove --force {wt}")
        r = sh(f"git -C /repo worktree add --detach {wt} HEAD")
        try:
            r = sh(f"git -C {wt} apply {patch}")
            if r.returncode:
                print("patch does not apply:", r.stderr)
                return 2
            suite = sh(f"JOBS=10 /tmp/wt-tools/run_suite.sh {wt}")
            if suite.returncode != 0:  # the suite's own Hypothesis tests have deadlines: retry once on a loaded machine
                suite = sh(f"JOBS=6 /tmp/wt-tools/run_suite.sh {wt}")
            d1 = sh(f"PYTHONPATH={wt}/src /venv/bin/python {demo}", cwd="/tmp")
            sh(f"git -C {wt} checkout -- .")
            d0 = sh(f"PYTHONPATH={wt}/src /venv/bin/python {demo}", cwd="/tmp")
            meta["confirmed"] = {
                "suite_with_change": suite.stdout.strip().splitlines()[-1:] if suite.returncode == 0 else suite.stdout[-600:],
                "suite_ok": suite.returncode == 0,
                "demo_exit_with_change": d1.returncode,
                "demo_exit_without_change": d0.returncode,
                "demo_output_with_change": (d1.stdout + d1.stderr)[-800:],
            }
            ok = suite.returncode == 0 and d1.returncode == 1 and d0.returncode == 0
            meta["confirmed"]["ok"] = ok
            print(f"[{name}] suite_ok={suite.returncode == 0} demo_with={d1.returncode} demo_without={d0.returncode} -> {'CONFIRMED' if ok else 'NOT CONFIRMED'}")
        finally:
            sh(f"git -C /repo worktree remove --force {wt}")
            shutil.rmtree(wt, ignore_errors=True)
        if not meta["confirmed"]["ok"]:
            print(json.dumps(meta["confirmed"], indent=1)[:2000])
            return 1

    os.makedirs(dst, exist_ok=True)
    if src != dst:
        for f in ("patch.diff", "demo.py", "notes.md"):
            if os.path.exists(os.path.join(src, f)):
                shutil.copy(os.path.join(src, f), os.path.join(dst, f))
        patch = os.path.join(dst, "patch.diff")

    checks = (a.checks or a.pid).split(",")
    results = meta.setdefault("checks_run", {})
    repo = "/repo"
    if a.wt:
        # parallel mode: the change is applied to a private worktree of /repo's HEAD and the checks read it through VERIF_REPO
        repo = f"/var/tmp/seedwt-{name}"
        sh(f"git -C /repo worktree remove --force {repo}")
        sh(f"git -C /repo worktree add --detach {repo} HEAD")
    r = sh(f"git -C {repo} apply {patch}")
    if r.returncode:
        print(f"patch does not apply to {repo}:", r.stderr)
        if a.wt:
            sh(f"git -C /repo worktree remove --force {repo}")
        return 2
    try:
        for c in checks:
            t0 = time.time()
            env = dict(os.environ, VERIF_SEED=os.environ.get("VERIF_SEED", "1"))
            if a.wt:
                env["VERIF_REPO"] = repo
            r = subprocess.run(f"./check {c} --tier {a.tier}", shell=True, text=True, capture_output=True, cwd=VERIF, env=env)
            viol = [l for l in r.stdout.splitlines() if l.startswith("VIOLATION")]
            sigs = [l.strip()[:300] for l in r.stdout.splitlines() if l.startswith("  sig=")]
            results[f"{c}:{a.tier}"] = {"exit": r.returncode, "violations": len(viol), "sigs": sigs[:4], "wall_s": round(time.time() - t0, 1)}
            print(f"[{name}] check {c} {a.tier}: exit={r.returncode} violations={len(viol)} {sigs[:2]}")
            if r.returncode == 2:
                print(r.stdout[-1500:], r.stderr[-1500:])
    finally:
        if a.wt:
            sh(f"git -C /repo worktree remove --force {repo}")
            shutil.rmtree(repo, ignore_errors=True)
        else:
            sh("git -C /repo checkout -- .")
            # replays written while a seeded change was applied are not findings on the real tree
            sh(f"cd {VERIF} && git checkout -- evidence 2>/dev/null; rm -f replays/*.json")
    meta["detected_by"] = sorted(k for k, v in results.items() if v["exit"] == 1)
    with open(meta_path, "w") as fh:
        json.dump(meta, fh, indent=1, ensure_ascii=False)
        fh.write("\n")
    return 0


if __name__ == "__main__":
    sys.exit(main())
