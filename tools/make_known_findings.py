#!/usr/bin/env python3
"""Developer tool (NOT run by any check): regenerates /verif/known_findings.json from the literal table below.

The JSON file is what the checks read; it is committed and never written at run time.
Keeping the table in Python avoids hand-escaping control characters in JSON.
"""
import json
import os

HERE = os.path.dirname(os.path.dirname(os.path.abspath(__file__)))

COMMENT = (
    "Committed, read-only at run time. status=open entries are genuine defects of elevanaltd/octave-mcp that are "
    "recorded instead of repaired; each is identified by a narrow signature (a predicate over the failing input AND "
    "the exact observed failure shape, implemented in vf/props/<id>.py) plus a stored minimal example, so a different "
    "violation of the same property is still reported. status=fixed entries document 'fix:' commits in /repo; they "
    "suppress nothing: their example is replayed on every run and any failure on it is a VIOLATION."
)

F = []


def fixed(prop, sig, commit, what, example):
    F.append({"property": prop, "sig": sig, "status": "fixed", "commit": commit,
              "line": f"fixed: property={prop} {commit} {what}", "what": what, "example": example})


def open_(prop, sig, what, example, where=""):
    F.append({"property": prop, "sig": sig, "status": "open", "what": what, "where": where, "example": example})


# ------------------------------------------------------------------ C04
fixed("C04", "C04:escape-order", "1bcfb88",
      "a string containing backslash followed by n or t was written as \"\\\\n\" and read back as a newline/tab: "
      "the lexer applied its four escape replacements one after the other (lexer.py string unescape)",
      {"kind": "scalar", "site": "assign", "key": "K", "value": "\\n"})
fixed("C04", "C04:reserved-word-in-bare-token", "aa9fb48",
      "strings such as true-a, Z∨null, vs.x were emitted bare and re-lexed as literal/operator: value truncated, "
      "type changed or text rejected (emitter.py needs_quotes)",
      {"kind": "scalar", "site": "assign", "key": "K", "value": "Z∨null"})
fixed("C04", "C04:annotation-multiarg-or-empty", "37fcf6d",
      "the strings a<> and NEVER<A,B> (canonical spelling of NAME[] / NAME[A,B]) are emitted bare but were rejected "
      "by the lexer with E005 (lexer.py _match_unicode_identifier)",
      {"kind": "scalar", "site": "assign", "key": "K", "value": "a<>"})
open_("C04", "C04:nfc-after-escape",
      "a newline or tab immediately followed by a combining mark: the emitter writes \\n / \\t and the lexer "
      "NFC-normalises the whole line before unescaping, so 'n'+U+0301 composes to U+0144 and the escape is lost "
      "(LF,U+0301 reads back as backslash,U+0144)",
      {"kind": "scalar", "site": "assign", "key": "K", "value": "\ń"},
      where="lexer.py _normalize_with_fence_detection runs before string unescape")
open_("C04", "C04:cr-through-file",
      "a carriage return inside a string is written raw inside the quotes (no \\r escape exists); every tool that "
      "reads the file back (octave_validate(file_path), octave_write baseline read) opens it with universal "
      "newlines, so the value comes back with LF instead of CR",
      {"kind": "write", "mode": "changes", "value": "a\rb"},
      where="emitter.py emit_value / validate.py path.read_text")

if __name__ == "__main__":
    with open(os.path.join(HERE, "known_findings.json"), "w") as fh:
        json.dump({"_comment": COMMENT, "findings": F}, fh, indent=1, ensure_ascii=True)
        fh.write("\n")
    print(f"{len(F)} findings written")
