#!/bin/bash
# Developer tool: quick tier of every check at several seeds (run from a snapshot: vp run --with-repo -- tools/multiseed.sh 2 3 7)
cd "$(dirname "$0")/.."
[ -n "$VP_RUN_REPO" ] && export VERIF_REPO="$VP_RUN_REPO"
for seed in "$@"; do
  for c in C01 C02 C03 C04 C05 C06 C07 C08 C09 C10 C11 C12 C13 C14 C15 C16 C17 C18 C19 C20; do
    out=$(VERIF_SEED=$seed ./check $c 2>&1); rc=$?
    echo "seed=$seed $c rc=$rc $(echo "$out" | tail -1)"
    if [ $rc -ne 0 ]; then echo "$out" | grep -v "^KNOWN" | cut -c1-1500 | tail -8; fi
  done
done
