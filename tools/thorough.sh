#!/bin/bash
# Developer tool: thorough tier of the listed checks, one after the other (vp run --with-repo -- tools/thorough.sh C01 C02 ...)
cd "$(dirname "$0")/.."
[ -n "$VP_RUN_REPO" ] && export VERIF_REPO="$VP_RUN_REPO"
for c in "$@"; do
  /usr/bin/time -f "maxrss_kb=%M elapsed=%e" ./check $c --tier thorough > /tmp/thorough_$$.log 2>&1; rc=$?
  echo "thorough $c rc=$rc $(grep -E '^C[0-9]+ tier' /tmp/thorough_$$.log | tail -1) $(grep maxrss_kb /tmp/thorough_$$.log | tail -1)"
  if [ $rc -ne 0 ]; then grep -v "^KNOWN" /tmp/thorough_$$.log | cut -c1-1500 | tail -12; fi
done
rm -f /tmp/thorough_$$.log
