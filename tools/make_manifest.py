#!/usr/bin/env python3
"""Developer tool: regenerates /verif/MANIFEST.json from the table below (kept valid against the schema)."""
import json
import os
import subprocess

HERE = os.path.dirname(os.path.dirname(os.path.abspath(__file__)))

# id -> (level category, technique, level text, level note, design ref)
CHECKS = {
    "C04": ("exploration",
            "exhaustive small-scope enumeration + Hypothesis; round-trip identity oracle",
            "Every string of <=3 atoms over a 63-atom lexer-class alphabet (incl. escape-sequence lookalikes) at 13 value sites (one with YAML frontmatter, one the only pair of a list) is emitted and read back "
            "(exhaustive, ~3.3M round trips), plus generated text/ints/floats/bools/None and the same through "
            "octave_write(changes/mutations) followed by the product's own file reader; identity and type are "
            "compared. Exhaustive within the stated alphabet and length, sampled beyond it.",
            "trusts Python's NFC implementation and that one representative per lexer character class behaves like "
            "the class; longer strings are sampled, not enumerated",
            "DESIGN.md §3 C04"),
    "C01": ("exploration",
            "Hypothesis model documents x spellings + exhaustive token sequences; round-trip/idempotence oracle through API, MCP tools and CLI",
            "For every generated input that the reader accepts, the canonical text from each canonicalising entry point "
            "(emit(parse_with_warnings), octave_validate, octave_write + normalize mode, CLI normalize/validate/write) must "
            "be accepted by strict parse() and canonicalise to identical bytes. Inputs: model documents in canonical and "
            "lenient spellings (sampled) and every `K::<seq>` over <=3 (thorough <=4) lexemes of a 32-lexeme alphabet "
            "(exhaustive).",
            "the oracle is the property itself (a round trip), so nothing but the reader/emitter under test is trusted; "
            "inputs the reader rejects are outside the domain",
            "DESIGN.md §3 C01"),
    "C02": ("exploration",
            "model-based: Hypothesis-generated content model rendered to text; generator's content vs reader's AST",
            "Documents are generated as explicit content (never as text), rendered in a conservative canonical spelling "
            "and in seeded lenient spellings, read, canonicalised and re-read; after each read the AST's normal form "
            "(names, order, nesting, typed values, targets, section ids/annotations, META, frontmatter, sentinel, "
            "linearised comments) must equal the generator's. Sampled (tens of thousands of documents per run), not "
            "exhaustive.",
            "trusts the content model's expected-value rules (strings after NFC, NAME[a,b] => NAME<a,b>, multi-word joined "
            "by one space); comment attachment is treated as layout; spellings limited to the documented freedoms",
            "DESIGN.md §3 C02"),
    "C03": ("exploration",
            "metamorphic relation over generated respellings + independent strict-profile recogniser as validity predicate",
            "Each generated document is rendered canonically and in several seeded lenient spellings with an independent "
            "choice at every rewrite site; all must canonicalise to identical bytes (Python API and octave_write "
            "lenient=true), and a line-level recogniser written from the property statement must accept the result "
            "(Unicode operators only, no space around ::, 2 spaces per level from its own container stack, envelope "
            "lines, no tabs/trailing whitespace, single final newline). Sampled, not exhaustive.",
            "only documented freedoms are rendered; frontmatter and zone content are opaque to the recogniser",
            "DESIGN.md §3 C03"),
    "C05": ("exploration",
            "model-based: generated zone content and frame vs every pipeline's output, plus an independent text-level fence scanner",
            "Zone-heavy generated documents (hostile content lines, fence 3-6, tags, every position incl. META and bare block "
            "children, canonical and lenient spellings) go through parse, emit, octave_validate (fix off/on), octave_write "
            "(content/changes/normalize), seal+verify and canonical eject (octave, json); each output must hold exactly the "
            "generated zones (content, tag, fence; text lines between fences) in the generated frame of parents and "
            "neighbours. Sampled, not exhaustive.",
            "content lines that look like a closing fence are not generated (not representable); non-zone values are compared "
            "only by kind here (their fidelity is C02/C04)",
            "DESIGN.md §3 C05"),
    "C07": ("exploration",
            "bijection oracle: rewrites injected by the generator (with positions) vs receipts, as multisets",
            "The lenient renderer records every rewrite it injects (alias, triple quotes, bare multi-word, brace annotation) "
            "with original, replacement, line and NFC column; the multiset must equal the receipts of those kinds from "
            "parse_with_warnings, tokenize(lenient), octave_validate.repairs/repair_log and octave_write.corrections "
            "(lenient and strict); alias characters inside strings/comments/zones must produce none; canonical text "
            "must produce none. Sampled, not exhaustive.",
            "advisory receipts that rewrite nothing (spec_violation, duplicate_key, deep_nesting, constructor_misuse, "
            "pattern auto-quote) are outside the bijection; compilations (capped at 5) only checked for inclusion",
            "DESIGN.md §3 C07"),
    "C08": ("exploration",
            "exhaustive chains x values against a hand-written reference evaluator + algebraic chain laws; generated schemas x instances",
            "Every constraint chain of <=2 members over a 60-member pool is evaluated on a ~150-value boundary pool "
            "(exhaustive) and sampled chains of 3-4 members with all permutations: single-member verdicts must match a "
            "reference evaluator written from the documentation (where it fixes the answer), and chains must be the "
            "conjunction of their members unless a conflict is declared, whatever the order. Generated schema files "
            "(REJECT/WARN/IGNORE) x instances check the document-level rules through Validator and octave_validate.",
            "the reference evaluator's reading of the documentation; cases the documentation leaves open are counted as "
            "unasserted and only checked by implementation-relative laws",
            "DESIGN.md §3 C08"),
    "C09": ("exploration",
            "metamorphic relation: verdict triple equal across generated respellings, canonical text and repeated calls",
            "Generated documents (generic ones under the packaged META/SKILL schemas; instances of generated schemas planted "
            "on the search path) are rendered canonically, leniently and as emitted canonical text; per profile the triple "
            "(status, error (code, field) set, warning set) must be identical across all texts through octave_validate (one "
            "long-lived tool instance, content and file_path routes), Validator (fresh and one long-lived instance), "
            "octave_write(corrections_only) and CLI validate; fix=false must return plain "
            "canonicalisation and be repeatable, also after an intervening fix=true call. Sampled.",
            "implementation compared with itself under respelling (no independent verdict needed: that is C08); parse receipts "
            "are excluded from the triple",
            "DESIGN.md §3 C09"),
    "C10": ("exploration",
            "envelope invariants over Hypothesis-generated argument records, against the harness's own list of existing schemas",
            "Tens of thousands of generated calls of the four tools and the CLI (content kind incl. eight frontmatter shapes x schema argument incl. planted, "
            "broken, field-less, frontmatter-only, unknown, malformed, latest and frozen@sha256 references with HOME pointed at a generated "
            "cache x profile x every flag x schema-file history inside the process). Every envelope must carry a status from "
            "the three values; VALIDATED only for schema arguments the harness planted or knows as packaged, never when the "
            "content violates the current schema, and the returned text must be VALIDATED again; unknown / unloadable "
            "schema or parse failure => UNVALIDATED; INVALID => blocking profile + errors + schema name/version; valid flag "
            "agrees.",
            "the harness's own knowledge of which schemas exist and which generated contents violate the planted schemas",
            "DESIGN.md §3 C10"),
    "C11": ("exploration",
            "before/after structural diff of the normal form reconciled with the repair log (multiset equality), Decimal oracle for losslessness",
            "Generated schemas (ENUM pools with case structure, NUMBER fields) x instances with perturbed values, missing/extra "
            "fields, unrelated blocks and zones, occurrences of schema field names below and outside the schema's block, through repair(), "
            "octave_validate(fix), octave_write(lenient, schema), CLI validate --fix and the packaged META route (21 META.STATUS spellings): fix "
            "off changes nothing; fix on keeps keys/nesting/order and changes only leaves that are a case change to the unique "
            "case-insensitive ENUM member or a text-to-number change with equal decimal value; changes == log entries (tier "
            "REPAIR, exact before/after); repairing twice is a no-op. Sampled.",
            "a repair is judged by field name wherever it occurs (the whole-tree walk is the mechanism the property names); Python's Decimal decides losslessness",
            "DESIGN.md §3 C11"),
    "C12": ("exploration",
            "independent llama.cpp-syntax GBNF parser (with error recovery) as validity predicate over generated schemas",
            "Generated schemas (field-name pool covering every branch of the compiler's name handling and its own rule names; "
            "chains with hostile ENUM/CONST values, empty/blank member lists and 45 REGEX patterns) are compiled through every route (schema text, "
            "META.CONTRACT, API objects; fresh and reused compiler; octave_compile_grammar, octave_eject gbnf, grammar_hint incl. "
            "packaged schemas with hostile rejected values) and "
            "each grammar must parse under llama.cpp's syntax, define root and every reference, no rule twice, no empty "
            "alternative. Sampled; the packaged schemas are always included.",
            "my reading of llama.cpp's grammar-parser is the definition of well-formed; four malformation classes are genuine "
            "known findings with per-class signatures, anything else is a violation",
            "DESIGN.md §3 C12"),
    "C13": ("exploration",
            "bounded exhaustive / sampled derivation of each compiled field rule (own GBNF parser) -> OCTAVE reader -> the field's own constraint chain",
            "For generated schemas whose chains are decided by CONST/ENUM/TYPE[BOOLEAN]/TYPE[NUMBER]/DATE/ISO8601 the compiled "
            "grammar is parsed independently and the field rule derived (exhaustive for CONST/ENUM/BOOLEAN, NUMBER up to 3+3 "
            "digits over 4 digit values plus stretched derivations with every unbounded repetition taken 17/310/400 times, "
            "seeded samples plus calendar boundaries for dates; ws in {'', ' '}); every derived "
            "line must be read as exactly one assignment of that field whose value the field's chain accepts, through "
            "ConstraintChain.evaluate, Validator.validate and octave_validate with the schema planted.",
            "character classes are explored through representative characters; unbounded repetition is cut at 3 in the exhaustive part",
            "DESIGN.md §3 C13"),
    "C14": ("exploration",
            "leaf-set relations (subset / equality / honest flag / agreement across formats) with independent per-format readers",
            "Generated documents are ejected in 4 modes x 4 formats (tool) and 4 x 3 (CLI); each view is read back with an "
            "independent reader (OCTAVE reader, json, yaml.safe_load, Markdown scanner) into (key path, typed value) leaves: "
            "never a leaf the source lacks; canonical/authoring hold every leaf and say lossy=false; a dropping view says "
            "lossy=true; JSON/YAML/OCTAVE of one projection agree on key paths, Markdown names every key; five overlapping "
            "requests on the shared tool instance answer as each does alone. Sampled.",
            "Markdown is compared by key names and scalar text only (headings cannot close a nested block); key order is not asserted",
            "DESIGN.md §3 C14"),
    "C15": ("exploration",
            "per generated document: enumeration of all single-site model tampers re-rendered with the original seal; metamorphic respelling",
            "Each generated document is sealed; it must verify in memory, after emit->parse, after being written (atomic_write_octave, "
            "CLI seal -o + validate --verify-seal --require-seal) and keep its HASH when sealed again; lenient respellings of the "
            "sealed text must verify; every single-site tamper of the content model (value, type, order, nesting/parent, key, "
            "section id/name, target, META, envelope name, frontmatter incl. re-indentation, zone text incl. re-indentation, a line "
            "break replaced by U+2028/NEL/FF/VT) "
            "combined with the original seal must be INVALID, as must each of 64 single-character changes of the stored hash; "
            "no seal => NO_SEAL. All single-site tampers of each sampled document are enumerated; documents are sampled.",
            "tampers touching only comments, the separator or the grammar sentinel are not generated (not in the property's list)",
            "DESIGN.md §3 C15"),
    "C18": ("exploration",
            "frame model over generated change requests (sequences of <=3), line-level frame check, exhaustive Absent/empty-value placement",
            "Generated documents x sequences of change requests (DELETE / null / values of every kind / objects; KEY, META.X, META{...}, "
            "mutations) through octave_write and CLI write --changes: the file must hold exactly the content of the model with the "
            "named operations applied (structure, typed values, comments), and all lines outside the named keys' spans must be "
            "unchanged; a changes request on a file that cannot be read must fail and leave the bytes alone; exhaustive small part: "
            "Absent at 7 positions x 4 neighbour shapes is never written, and the four empty values stay distinct in all 24 orders.",
            "requests address top-level assignments, META fields and fresh keys; deleted nodes carry no comments; documents have no empty containers",
            "DESIGN.md §3 C18"),
    "C16": ("fault_enumeration",
            "enumeration of every file-operation boundary x {kill, torn write, short write, 5 errnos} via in-process interposition in forked children; before/after state oracle",
            "For 46 (thorough: 60+) scenarios of octave_write (incl. lenient schema repair), atomic_write_octave and CLI write, the fault-free run is traced and "
            "every boundary is then hit with a kill, a torn write, a short write and five injected errnos (thorough: all ordered pairs for two "
            "errnos), a refused rename (EIO/EACCES) is followed by a kill or ENOSPC at each of the next 12 boundaries, and a target path that is a "
            "directory is tried; the supervising process checks that the target holds old or complete new bytes after a kill, is untouched "
            "with no temp file left after a returned error, matches canonical_hash and keeps its permission bits after success, "
            "and that fsync precedes replace. Exhaustive over the traced boundaries of the listed scenarios.",
            "faults are injected at Python file-operation granularity by patching os/io/builtins (pathlib and tempfile resolve "
            "them at call time); the kernel's own atomicity of rename is assumed",
            "DESIGN.md §3 C16"),
    "C17": ("exploration",
            "register model over generated call histories; exhaustive in-call modification points; exhaustive two-writer interleavings with a deterministic scheduler",
            "Generated histories of writes / changes / normalize / dry runs / external modifications (tool and CLI --base-hash) with every base_hash choice are "
            "checked step by step against a register model (bytes and touched top-level keys) with a whole-sandbox snapshot before and after each call; for a call "
            "holding the current hash the file is modified right before each of its file-operation boundaries (exhaustive); two "
            "writers with one base_hash are run through all 252 interleavings of their five logical steps for octave_write and "
            "atomic_write_octave (exhaustive), plus overlapping coroutines in one event loop.",
            "writers are gated at Python file-operation granularity by the harness's scheduler; base_hash on an absent file is vacuous "
            "by the documented contract",
            "DESIGN.md §3 C17"),
    "C19": ("exploration",
            "generated trees x path strings under a file-operation trace with before/after snapshots; exhaustive short schema names; reference and URI pools",
            "Path strings built from a segment pool (.., every symlink kind incl. dangling and self-referential, allowed/disallowed/"
            "compound/upper-case extensions, NUL, over-long, ~ and $HOME spellings with HOME pointing at the outside tree) are handed to twelve entry points (three of them with a base_hash) over a planted sandbox + outside tree: "
            "a path the harness classifies as traversal / symlink / wrong extension must be refused with no open/create/replace/"
            "unlink in the trace and no change of either tree; no call may mutate or leak the outside tree. Schema names of <=3 "
            "characters over 66 symbols (quick: <=2 + sample) may only open files in schema directories; frozen references must "
            "hash to their digest; SOURCE_URIs must stay inside the base (incl. a sibling directory whose name extends the base's).",
            "the harness's own lexical + lstat classification of a path is the oracle for 'must be refused'",
            "DESIGN.md §3 C19"),
    "C20": ("exploration",
            "exhaustive short token sequences, Unicode text, span mutations of packaged files, typed-hole product through every tool flag, coverage-guided atheris campaign (thorough), CPU-time ratios and CPU-time hang guard; exception bucketing",
            "Every sequence of <=3 (thorough <=4) symbols over a 36-symbol alphabet, generated Unicode text, punctuation soups and "
            "unterminated constructs, mutated copies of ~40 packaged files, extreme probes, and (thorough) a coverage-guided atheris "
            "campaign all go through tokenize/parse/parse_with_warnings/parse_meta_only, which may only raise LexerError/ParserError "
            "and must answer an input below 20 kB within 10 CPU-seconds; the four MCP tools are called with the same contents, with "
            "write histories on one path, and with a product of 19 interpreted positions x 50 values x every mode/format flag, and "
            "must return JSON-serialisable envelopes carrying a status; 24 size-scaled families are timed at n/4n/16n in CPU time "
            "with triple confirmation in fresh processes.",
            "foreign exceptions are bucketed by (type, innermost octave_mcp frame); timing uses ratios, not absolute limits; "
            "text excludes lone surrogates",
            "DESIGN.md §3 C20"),
    "C06": ("exploration",
            "differential across worker processes under a configuration matrix and shuffled call histories; byte equality of serialised envelopes",
            "One generated batch of calls (all four tools, direct emit/seal/hash/Validator/GBNFCompiler) is executed by worker "
            "processes that differ in PYTHONHASHSEED (0, 1, 4242, random), working directory, LANG/LC_ALL, and history (fresh, "
            "after a shuffled permutation of the same calls in the same process, as tasks of one event loop, from four OS threads sharing "
            "the tool instances, from eight threads released at once in a cold process); every call's "
            "serialised envelope (key order kept, timestamps masked) must be byte-identical to the reference worker's.",
            "the implementation is compared with itself; locales limited to those installed (C.UTF-8, C, POSIX); OS-thread "
            "interleavings are sampled, the harness does not own that schedule",
            "DESIGN.md §3 C06"),
}

NOT_YET = {
}


def main():
    props = [json.loads(l) for l in open(os.path.join(HERE, "properties.jsonl"))]
    checks = []
    na = []
    for p in props:
        pid = p["id"]
        if pid in CHECKS:
            cat, tech, text, note, ref = CHECKS[pid]
            checks.append({
                "property_id": pid,
                "quick_cmd": f"./check {pid} --tier quick",
                "thorough_cmd": f"./check {pid} --tier thorough",
                "evidence_file": f"evidence/{pid}.json",
                "replay_cmd_template": f"./check {pid} --replay {{path}}",
                "engine": "vf",
                "level_claimed": {"category": cat, "text": text, "design_ref": ref},
                "level_note": note,
                "technique": tech,
            })
        else:
            na.append({"property_id": pid,
                       "reason": NOT_YET.get(pid, "check not built yet in this revision of /verif (planned; see DESIGN.md §3)")})
    try:
        commits = subprocess.check_output(
            ["git", "-C", "/repo", "log", "--format=%h %s", "c548b8b..HEAD"], text=True).strip().splitlines()
    except Exception:
        commits = []
    hook_commits = [c.split()[0] for c in commits if not c.split(" ", 1)[1].startswith("fix:")]
    manifest = {
        "version": 1,
        "setup_cmd": "./setup.sh",
        "hooks": {
            "guard": "OCTAVE_MCP_VERIF",
            "enable": "no source hooks are needed: every observation point is a public function or tool execute(); "
                      "file-system interposition is done by patching os/io/builtins inside the harness process. "
                      "Checks import /repo/src directly, so they always run the current working tree.",
            "baseline_off_cmd": "tools/baseline.sh /repo",
            "source_commits": hook_commits,
            "add_only": True,
        },
        "engines": [
            {"name": "vf", "path": "vf/runner.py", "serves_properties": sorted(CHECKS),
             "kind_free_text": "Hypothesis 6.168 strategies + exhaustive small-scope enumeration sharded over 16 "
                               "processes, collect-mode oracles, known-finding signatures, greedy structural shrinking, "
                               "JSON replay files"},
        ],
        "checks": checks,
        "not_applicable": na,
        "notes": "Repairs of genuine defects are separate 'fix:' commits in /repo (listed as fixed entries in "
                 "known_findings.json): " + "; ".join(c for c in commits if c.split(" ", 1)[1].startswith("fix:")),
    }
    with open(os.path.join(HERE, "MANIFEST.json"), "w") as fh:
        json.dump(manifest, fh, indent=1, ensure_ascii=False)
        fh.write("\n")
    print(f"{len(checks)} checks, {len(na)} not_applicable")


if __name__ == "__main__":
    main()
