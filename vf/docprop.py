"""Shared driver for the document-based properties (C01, C02, C03, C05, C07, C09, C14, C15, C18 ...).

A *case* is {"doc": <model document>, "sp": spelling} where spelling is
    {"k": "canon"}                                  conservative canonical rendering
    {"k": "len", "seed": n, "level": x, "curly": b}  one lenient rendering (deterministic from seed)
A property module supplies  oracle(doc, sp, text, info) -> list[(sig, detail)]  and the document-strategy keyword
arguments; this module draws documents with Hypothesis (seeded), renders every requested spelling, counts labels,
collects failures without raising, and provides check_case / shrink_candidates for replay and minimisation.
"""

from __future__ import annotations

import warnings
from typing import Callable

from vf import model, render
from vf.common import Ctx, Failure, Stats, drive, run_sharded

warnings.filterwarnings("ignore", message="Generating overly large repr")


def render_case(doc, sp):
    if sp["k"] == "canon":
        return render.render_canonical(doc), {"rewrites": [], "used": {}, "protected": 0, "advisory": 0}
    return render.render_lenient(doc, sp["seed"], sp.get("level", 0.6), sp.get("curly", False),
                                 set(sp["kinds"]) if sp.get("kinds") is not None else None, set(sp.get("deny") or ()))


def spellings_for(i: int, seed: int, n_lenient: int, curly: bool = False) -> list[dict]:
    sps: list[dict] = [{"k": "canon"}]
    for j in range(n_lenient):
        s = (seed * 1315423911 + i * 2654435761 + j * 97) % (2**31)
        sps.append({"k": "len", "seed": s, "level": [0.3, 0.6, 0.9][(i + j) % 3], "curly": curly and (j % 2 == 1)})
    return sps


def shard_impl(ctx: Ctx, sh: int, per_shard: int, oracle: Callable, doc_kwargs: dict, n_lenient: int,
               nontrivial: Callable | None = None, curly: bool = False, label_fn: Callable | None = None,
               strategy=None) -> Stats:
    """Body of a property module's (module-level, hence picklable) shard function."""
    if True:
        st = Stats()
        counter = [0]

        def one(doc):
            i = counter[0]
            counter[0] += 1
            feats = model.features(doc)
            nt_doc = (nontrivial or model.nontrivial)(doc)
            for sp in spellings_for(i, ctx.shard_seed(sh), n_lenient, curly):
                text, info = render_case(doc, sp)
                labels = ["sp_" + sp["k"]]
                if sp["k"] == "canon":
                    labels += sorted(feats)
                else:
                    labels += ["used_" + k for k in info["used"]]
                if label_fn:
                    labels += label_fn(doc, sp, text, info)
                fails = oracle(doc, sp, text, info)
                st.case({"text": text}, nontrivial=nt_doc, labels=labels, key=text)
                for sig, detail in fails:
                    st.fail(sig, {"doc": doc, "sp": sp}, detail)

        drive(strategy if strategy is not None else model.document(**doc_kwargs), one, ctx.shard_seed(sh, 11), per_shard)
        return st


def check_case_with(oracle: Callable, case) -> list[Failure]:
    text, info = render_case(case["doc"], case["sp"])
    return [Failure(sig, case, detail) for sig, detail in oracle(case["doc"], case["sp"], text, info)]


def shrink_candidates(case):
    if case["sp"]["k"] != "canon":
        yield {**case, "sp": {"k": "canon"}}
        if case["sp"].get("level", 0.6) > 0.3:
            yield {**case, "sp": {**case["sp"], "level": 0.3}}
    for d in model.shrink_candidates(case["doc"]):
        yield {**case, "doc": d}


def run_docs(ctx: Ctx, shard_fn, per_shard: int) -> Stats:
    return run_sharded(shard_fn, ctx, extra=(per_shard,))
