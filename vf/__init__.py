"""Property-based verification machinery for elevanaltd/octave-mcp."""
