"""C17 — base_hash is a real compare-and-swap; failed and dry calls change nothing.

(A) histories: generated sequences (<=5) of calls on one path — content write, changes write, normalize, corrections_only
    dry run, external modification (other text, empty file, non-UTF-8 bytes, delete) — each call with base_hash in {none,
    current, stale, hash of the new content}, checked step by step against a register model, with a snapshot of the whole
    sandbox before/after every call.
(B) in-call modification: for a call holding the current hash, the file is modified by the harness right before EACH
    file-operation boundary of that call (vf/fsx.py), exhaustively.
(C) two writers holding the same base_hash, gated at the five logical steps {entry read, temp create, temp write, verify
    re-read, replace}: ALL 252 interleavings, for octave_write and atomic_write_octave; plus N coroutines in one event loop
    (asyncio.gather).
Oracle: a call with base_hash may succeed only if the file hashed to base_hash when the new content was installed;
mismatch => E_HASH and unchanged bytes; corrections_only and every status=error call leave the sandbox snapshot unchanged;
success => sha256(file) == canonical_hash; of several writers with one base_hash at most one succeeds.
"""

from __future__ import annotations

import hashlib
import itertools
import json
import os
import shutil

from vf import fsx, tools
from vf.common import Ctx, Failure, Stats, drive, run_sharded, scratch_dir

PROP = "C17"
LEVEL = "exploration"
RULE = (
    "(A) Hypothesis histories of 1-5 steps over {content write (4 contents incl. non-canonical and unparseable), changes write, "
    "normalize, corrections_only of each, CLI write --stdin / --changes with --base-hash, external modification (2 texts, empty, non-UTF-8, delete)} x base_hash in {none, current, "
    "stale, hash of new content} x {parent exists, missing}; register model + sandbox snapshot per step. (B) exhaustive: for content/"
    "changes/normalize calls holding the current hash, an external modification right before each of the call's ~25 file-operation "
    "boundaries. (C) exhaustive: all C(10,5)=252 interleavings of two writers with the same base_hash at 5 gated logical steps, for "
    "octave_write and atomic_write_octave; 3 coroutines under asyncio.gather. Non-trivial: (A) a history with an external "
    "modification between a hash read and a later write with base_hash; (B) modification between the first compare and the replace; "
    "(C) schedules where both writers pass their first compare before either replaces. Distinct by history / (call, boundary) / schedule."
)
ASSUMPTIONS = [
    "for an absent file the documented contract 'CAS guard when file exists' makes base_hash vacuous (modelling decision, DESIGN.md C17)",
    "only 'success => the hash matched at install time' and 'mismatch => E_HASH, unchanged' are asserted; a refusal although the bytes match (non-UTF-8 file) is an allowed understatement",
    "schedules are explored at Python file-operation granularity; preemption inside one system call is the kernel's atomicity",
]

TEXTS = {
    "A": "===A===\nMETA:\n  TYPE::T\nK::a\n===END===\n",
    "B": "===B===\nMETA:\n  TYPE::T\nK::b\nL::[1,2]\n===END===\n",
    "C": "===C===\nMETA:\n    TYPE :: T\nK::c -> d  \n",  # non-canonical spelling
    "X": "===X===\nK::[1,2\n===END===\n",  # unparseable
    "S": "===S===\nK::\"lone \ud800 surrogate\"\n===END===\n",  # readable, but its canonical text cannot be encoded as UTF-8: fails while staging
    "Z": "===Z===\nK::\n```\nline one\r\nline two\rend\n```\n===END===\n",  # CR bytes survive inside a literal zone
}
EXT = {"TAIL": b"", "RESPELL": b"", "E1": TEXTS["A"].replace("K::a", "K::external").encode(), "E2": b"===E2===\nZ::1\n===END===\n", "EMPTY": b"", "BIN": b"\xff\xfe\x00binary\x80", "DEL": None}
STALE = hashlib.sha256(b"something that was never in the file").hexdigest()


def sha(b: bytes) -> str:
    return hashlib.sha256(b).hexdigest()


def canon_bytes(text: str):
    from octave_mcp import emit, parse

    try:
        return emit(parse(text)).encode("utf-8")
    except Exception:
        return None


# ---------------------------------------------------------------------------------------------- (A) histories
def run_history(case, root):
    """Returns (fails, nontrivial)."""
    fails = []
    d = os.path.join(root, "deep", "er") if case.get("parent_missing") else root
    path = os.path.join(d, "h.oct.md")
    model_file = None  # bytes | None
    read_hash_then_ext = False
    prev_hash = None  # hash of the file as it was before the latest external modification
    seen_ext_since_write = False
    for k, step in enumerate(case["steps"]):
        op = step["op"]
        if op == "ext":
            prev_hash = sha(model_file) if model_file is not None else prev_hash
            b = EXT[step["what"]]
            if step["what"] in ("TAIL", "RESPELL"):
                # an edit that canonicalisation would erase: text after the closing envelope line / the same fields re-spelled.
                # The bytes differ, so a base_hash taken before the edit no longer names the file
                if model_file is None or b"===END===" not in model_file:
                    b = EXT["E1"]
                elif step["what"] == "TAIL":
                    b = model_file + "\n§LATE::ADDED_BY_ANOTHER_WRITER\n  X::1\n".encode("utf-8")
                else:
                    b = model_file.replace(b"::", b" :: ").replace(b"\n===END===", b"\n\n===END===")
            if b is None:
                if os.path.exists(path):
                    os.unlink(path)
            else:
                os.makedirs(os.path.dirname(path), exist_ok=True)
                with open(path, "wb") as fh:
                    fh.write(b)
            model_file = b
            seen_ext_since_write = True
            continue
        before = fsx.snapshot(root)
        bh = None
        hb = step.get("bh", "none")
        new_c = canon_bytes(TEXTS[step["content"]]) if op in ("write", "dry_write", "cli_write") else None
        if hb == "current":
            bh = sha(model_file) if model_file is not None else STALE
        elif hb == "stale":
            bh = STALE
        elif hb == "prev":
            bh = prev_hash or STALE
        elif hb == "new":
            bh = sha(new_c) if new_c is not None else STALE
        kw = {"target_path": path}
        if bh:
            kw["base_hash"] = bh
        if op in ("write", "dry_write"):
            kw["content"] = TEXTS[step["content"]]
        elif op in ("changes", "dry_changes"):
            kw["changes"] = {"K": "changed" + str(k), "NEW" + str(k): [k]}
        if op.startswith("dry"):
            kw["corrections_only"] = True
        try:
            if op.startswith("cli"):
                as_arg = op == "cli_write" and step["content"] in ("S", "Z")  # (stdin is a text stream: it cannot carry a lone surrogate and translates CR)
                args = ["write", path] + ((["--content", TEXTS[step["content"]]] if as_arg else ["--stdin"]) if op == "cli_write"
                                          else ["--changes", json.dumps({"K": "changed" + str(k), "NEW" + str(k): [k]})])
                if bh:
                    args += ["--base-hash", bh]
                code, out_, err_, exc = tools.cli(args, input=TEXTS[step["content"]] if (op == "cli_write" and not as_arg) else None)
                if exc is not None:
                    raise exc
                hm = [ln.split(": ", 1)[1].strip() for ln in out_.splitlines() if ln.startswith("canonical_hash: ")]
                r = {"status": "success" if code == 0 else "error", "canonical_hash": hm[0] if hm else None,
                     "errors": [{"code": "E_HASH" if "ash mismatch" in (out_ + err_) else "E_CLI"}]}
            else:
                r = tools.write(**kw)
        except Exception as e:
            fails.append(("C17:unlisted:tool-raised", f"step {k} {step}: octave_write raised {e!r}"))
            break
        after = fsx.snapshot(root)
        status = r.get("status")
        codes = [e.get("code") for e in (r.get("errors") or [])]
        matches = (model_file is not None and bh is not None and sha(model_file) == bh)
        if op.startswith("dry"):
            if after != before:
                fails.append(("C17:unlisted:corrections-only-changed-filesystem", f"step {k} {step}: corrections_only call changed the sandbox: {diff_snap(before, after)}"))
                break
            continue
        if status != "success":
            if after != before:
                created_dirs_only = all(e[1] == "dir" for e in set(after) - set(before)) and not (set(before) - set(after))
                sig = "C17:error-leaves-created-parent-directory" if created_dirs_only else "C17:unlisted:error-changed-filesystem"
                fails.append((sig, f"step {k} {step}: status=error {codes} but the sandbox changed: {diff_snap(before, after)}"))
                if not created_dirs_only:
                    break
            readable = model_file is not None and _is_utf8(model_file)
            if bh is not None and readable and not matches and "E_HASH" not in codes and (op not in ("write", "cli_write") or new_c is not None) \
                    and not (op == "cli_changes" and top_keys(model_file) is None):
                fails.append(("C17:unlisted:mismatch-not-reported-as-E_HASH", f"step {k} {step}: base_hash does not match the file but the error is {codes}, not E_HASH"))
            continue
        # success
        cur = open(path, "rb").read() if os.path.exists(path) else None
        if bh is not None and model_file is not None and not matches:
            fails.append(("C17:unlisted:write-succeeded-with-wrong-base-hash", f"step {k} {step}: the file hashed to {sha(model_file)[:8]} but base_hash {bh[:8]} was accepted; "
                          f"file before={model_file[:60]!r} after={cur[:60] if cur else cur!r}"))
            break
        if cur is None or (r.get("canonical_hash") and sha(cur) != r["canonical_hash"]):
            fails.append(("C17:unlisted:success-but-file-differs-from-canonical-hash", f"step {k} {step}: sha256(file) != canonical_hash"))
            break
        if op in ("write", "cli_write") and new_c is not None and cur != new_c:
            fails.append(("C17:unlisted:success-but-wrong-content", f"step {k} {step}: file is not the canonical text of the written content"))
            break
        if op in ("changes", "cli_changes") and model_file is not None and _is_utf8(model_file):
            # key-level frame model: the new file holds the old file's top-level keys plus exactly the keys THIS call named —
            # nothing a dry run or a failed call asked for earlier
            want_keys = top_keys(model_file)
            got_keys = top_keys(cur)
            if want_keys is not None and got_keys is not None:
                want_keys = want_keys | {"K", "NEW" + str(k)}
                if got_keys != want_keys:
                    fails.append(("C17:unlisted:changes-wrote-keys-of-another-call", f"step {k} {step}: top-level keys {sorted(got_keys)} but the file before had "
                                  f"{sorted(top_keys(model_file))} and this call named K and NEW{k}: extra={sorted(got_keys - want_keys)} missing={sorted(want_keys - got_keys)}"))
                    break
        if seen_ext_since_write and bh is not None:
            read_hash_then_ext = True
        seen_ext_since_write = False
        model_file = cur
    return fails, read_hash_then_ext


def top_keys(b: bytes):
    from octave_mcp import parse
    from octave_mcp.core.ast_nodes import Assignment

    try:
        return {n.key for n in parse(b.decode("utf-8")).sections if isinstance(n, Assignment)}
    except Exception:
        return None


def _is_utf8(b: bytes) -> bool:
    try:
        b.decode("utf-8")
        return True
    except UnicodeDecodeError:
        return False


def diff_snap(a, b):
    sa, sb = set(map(tuple, a)), set(map(tuple, b))
    return {"removed": [x[:3] for x in sorted(sa - sb)][:4], "added": [x[:3] for x in sorted(sb - sa)][:4]}


def history_strategy():
    from hypothesis import strategies as hs

    bh = hs.sampled_from(["none", "current", "current", "stale", "new", "prev"])
    step = hs.one_of(
        hs.builds(lambda c, b: {"op": "write", "content": c, "bh": b}, hs.sampled_from(["A", "B", "C", "X", "S", "Z"]), bh),
        hs.builds(lambda b: {"op": "changes", "bh": b}, bh),
        hs.builds(lambda b: {"op": "normalize", "bh": b}, bh),
        hs.builds(lambda c, b: {"op": "dry_write", "content": c, "bh": b}, hs.sampled_from(["A", "C", "X"]), bh),
        hs.builds(lambda b: {"op": "dry_changes", "bh": b}, bh),
        hs.builds(lambda w: {"op": "ext", "what": w}, hs.sampled_from(sorted(EXT))),
        hs.builds(lambda w: {"op": "ext", "what": w}, hs.sampled_from(sorted(EXT))),
        hs.builds(lambda c, b: {"op": "cli_write", "content": c, "bh": b}, hs.sampled_from(["A", "B", "X", "S", "Z"]), bh),
        hs.builds(lambda b: {"op": "cli_changes", "bh": b}, bh),
    )
    return hs.builds(lambda s, pm: {"kind": "history", "steps": s, "parent_missing": pm}, hs.lists(step, min_size=1, max_size=5), hs.booleans())


def shard_hist(ctx: Ctx, sh: int, nshards: int, n: int) -> Stats:
    st = Stats()
    with scratch_dir() as base:
        def one(case):
            root = os.path.join(base, "h")
            shutil.rmtree(root, ignore_errors=True)
            os.makedirs(root)
            fails, nt = run_history(case, root)
            st.case(case, nontrivial=nt, labels=["history_len_%d" % len(case["steps"])] + sorted({"op_" + s["op"] for s in case["steps"]}))
            for sig, det in fails:
                st.fail(sig, case, det)

        drive(history_strategy(), one, ctx.shard_seed(sh, 17), n, chunk=4000)
    return st


# ---------------------------------------------------------------------------------------------- (B) in-call modification
def _child_call(entry, op, path, bh, hook, result_path, root):
    import asyncio

    fsx.install([root], hook)
    out = {}
    try:
        if entry == "tool":
            from octave_mcp.mcp.write import WriteTool

            kw = {"target_path": path, "base_hash": bh}
            if op == "write":
                kw["content"] = TEXTS["B"]
            elif op == "changes":
                kw["changes"] = {"K": "changed"}
            r = asyncio.run(WriteTool().execute(**kw))
            out["status"], out["codes"] = r.get("status"), [e.get("code") for e in (r.get("errors") or [])]
        else:
            from octave_mcp.core.file_ops import atomic_write_octave

            r = atomic_write_octave(path, TEXTS["B"], bh)
            out["status"], out["codes"] = r.get("status"), [str(r.get("error"))[:60]]
    except BaseException as e:  # noqa: BLE001
        out["raised"] = repr(e)
    out["trace"] = fsx.STATE.trace
    with fsx.STATE.real["builtins.open"](result_path, "w") as fh:
        json.dump(out, fh)
    os._exit(0)


def forked(fn, *a):
    pid = os.fork()
    if pid == 0:
        try:
            fn(*a)
        finally:
            os._exit(3)
    _, status = os.waitpid(pid, 0)
    return os.waitstatus_to_exitcode(status)


def incall(entry, op, base_dir, st: Stats, only=None):
    fails = []
    root = os.path.join(base_dir, "ic")
    result = os.path.join(base_dir, "ic.json")
    start = TEXTS["C"].encode() if op == "normalize" else TEXTS["A"].encode()
    ext = EXT["E1"]

    def fresh():
        shutil.rmtree(root, ignore_errors=True)
        os.makedirs(root)
        p = os.path.join(root, "t.oct.md")
        with open(p, "wb") as fh:
            fh.write(start)
        return p

    path = fresh()
    forked(_child_call, entry, op, path, sha(start), None, result, root)
    base = json.load(open(result))
    trace = base["trace"]
    if base.get("status") != "success":
        return [("C17:unlisted:incall-baseline-failed", f"{entry}/{op}: unmodified call failed: {base}", {})]
    installed = open(path, "rb").read()
    opens_r = [i for i, (n, info) in enumerate(trace) if n == "open:r" and info.endswith("t.oct.md")]
    repl = next((i for i, (n, _) in enumerate(trace) if n == "replace"), None)
    verify_open = opens_r[-1] if len(opens_r) >= 2 else None
    # boundary at which the verify re-read obtains the bytes: the read after the verify open (anything later is too late to be seen)
    verify_done = next((i for i in range((verify_open or 0) + 1, len(trace)) if trace[i][0] == "read"), None) if verify_open is not None else None
    ks = range(len(trace)) if only is None else [only]
    for k in ks:
        path = fresh()

        def hook(idx, name, info, k=k, path=path):
            if idx == k:
                with fsx.STATE.real["builtins.open"](path, "wb") as fh:
                    fh.write(ext)
            return None

        forked(_child_call, entry, op, path, sha(start), hook, result, root)
        out = json.load(open(result))
        final = open(path, "rb").read() if os.path.exists(path) else None
        st.evaluations += 1
        st.labels[f"incall_{entry}_{op}"] += 1
        first_read_done = next((i for i in range((opens_r[0] if opens_r else 0) + 1, len(trace)) if trace[i][0] == "fclose"), 0) if opens_r else 0
        in_window = first_read_done < k <= (repl if repl is not None else len(trace))
        if in_window:
            st.nontrivial_exact += 1
            st.labels["nontrivial"] += 1
        where = f"{entry}/{op}: external modification right before boundary {k} {trace[k]}"
        case = {"kind": "incall", "entry": entry, "op": op, "k": k}
        if "raised" in out:
            fails.append(("C17:unlisted:incall-raised", f"{where}: raised {out['raised']}", case))
            continue
        if repl is not None and k > repl:
            # modification after the install: the call succeeded on a matching file; the external bytes are the final state
            if out.get("status") != "success" or final != ext:
                fails.append(("C17:unlisted:incall-after-install", f"{where}: status={out.get('status')} final={final[:40] if final else final!r}", case))
            continue
        if out.get("status") == "success":
            # the file did NOT hash to base_hash at install time (it held the external bytes)
            lost = final != ext
            if verify_done is not None and verify_done < k <= repl:
                fails.append(("C17:verify-then-replace-not-atomic", f"{where}: the conflicting write landed after the verify re-read and before os.replace; the call "
                              f"returned success and {'overwrote it' if lost else 'kept it'}", case))
            elif k <= (opens_r[0] if opens_r else -1):
                # before the call's first read of the file: the call saw the external bytes from the start, hash mismatch expected
                fails.append(("C17:unlisted:stale-hash-accepted", f"{where}: file held other bytes before the call read it, yet base_hash was accepted", case))
            else:
                fails.append(("C17:unlisted:modified-file-overwritten-despite-base-hash", f"{where}: success although the file was modified before the verify re-read (verify at {verify_open}); final={'external' if not lost else 'overwritten'}", case))
        else:
            if final != ext:
                fails.append(("C17:unlisted:error-but-file-not-kept", f"{where}: returned {out.get('codes')} but the file does not hold the external bytes", case))
            if "E_HASH" not in (out.get("codes") or []) and entry == "tool":
                fails.append(("C17:unlisted:mismatch-not-reported-as-E_HASH", f"{where}: error is {out.get('codes')}, not E_HASH", case))
            extra = [x for x in os.listdir(root) if x != "t.oct.md"]
            if extra:
                fails.append(("C17:unlisted:error-left-temp-file", f"{where}: error left {extra}", case))
    return fails


# ---------------------------------------------------------------------------------------------- (C) two writers
GATES = ["entry-read", "temp-create", "temp-write", "verify-read", "replace"]


def _two_writers_child(entry, schedule, root, result_path):
    """Two writer threads; each blocks before its next gate until the scheduler (main thread) releases it."""
    import asyncio
    import threading

    path = os.path.join(root, "t.oct.md")
    start = TEXTS["A"].encode()
    bh = sha(start)
    sems = {"A": threading.Semaphore(0), "B": threading.Semaphore(0)}
    arrived = {"A": threading.Semaphore(0), "B": threading.Semaphore(0)}
    done = {"A": threading.Event(), "B": threading.Event()}
    tl = threading.local()
    counts = {"A": 0, "B": 0}
    results = {}

    def gate_of(name, info, who):
        if name == "open:r" and info.endswith("t.oct.md"):
            return "read"
        if name == "open:w" and info.endswith(".tmp"):
            return "temp-create"
        if name == "write":
            return "temp-write"
        if name == "replace":
            return "replace"
        return None

    def hook(idx, name, info):
        who = getattr(tl, "who", None)
        if who is None:
            return None
        g = gate_of(name, info, who)
        if g is None:
            return None
        counts[who] += 1
        arrived[who].release()
        sems[who].acquire()
        return None

    fsx.install([root], hook)
    fsx.STATE.busy = False

    def writer(who, text):
        tl.who = who
        try:
            if entry == "tool":
                from octave_mcp.mcp.write import WriteTool

                r = asyncio.run(WriteTool().execute(target_path=path, content=text, base_hash=bh))
                results[who] = r.get("status")
            else:
                from octave_mcp.core.file_ops import atomic_write_octave

                r = atomic_write_octave(path, text, bh)
                results[who] = r.get("status")
        except BaseException as e:  # noqa: BLE001
            results[who] = "raised:" + repr(e)
        finally:
            tl.who = None
            done[who].set()
            arrived[who].release()

    ta = threading.Thread(target=writer, args=("A", TEXTS["B"]))
    tb = threading.Thread(target=writer, args=("B", TEXTS["B"].replace("K::b", "K::second")))
    ta.start()
    tb.start()
    log = []
    parked = {"A": False, "B": False}  # True = the writer is known to stand at a gate (its arrival token was consumed)

    def wait_parked(who):
        if not parked[who] and not done[who].is_set():
            arrived[who].acquire()  # next gate reached, or finished
            parked[who] = not done[who].is_set()

    # both writers run up to their first gate before anything is scheduled
    wait_parked("A")
    wait_parked("B")
    for who in schedule:
        wait_parked(who)
        if done[who].is_set():
            continue
        log.append(who)
        parked[who] = False
        sems[who].release()
        # a step is over only when that writer stands at its next gate (or has finished): the next letter must not
        # start before the operation just released has really been performed
        wait_parked(who)
    # let both run to completion (gates beyond the scheduled ones, if any)
    for who in ("A", "B"):
        while not done[who].is_set():
            wait_parked(who)
            if done[who].is_set():
                break
            parked[who] = False
            sems[who].release()
    ta.join(5)
    tb.join(5)
    final = open(path, "rb").read() if os.path.exists(path) else None
    with fsx.STATE.real["builtins.open"](result_path, "w") as fh:
        json.dump({"results": results, "final": final.decode("utf-8", "replace") if final is not None else None, "log": log,
                   "leftover": [x for x in os.listdir(root) if x != "t.oct.md"]}, fh)
    os._exit(0)


def two_writers(entry, base_dir, st: Stats, only=None):
    fails = []
    root = os.path.join(base_dir, "tw")
    result = os.path.join(base_dir, "tw.json")
    n_gates = 5 if entry == "tool" else 5
    scheds = ["".join(s) for s in sorted(set(itertools.permutations("A" * n_gates + "B" * n_gates)))] if only is None else [only]
    for sch in scheds:
        shutil.rmtree(root, ignore_errors=True)
        os.makedirs(root)
        with open(os.path.join(root, "t.oct.md"), "wb") as fh:
            fh.write(TEXTS["A"].encode())
        code = forked(_two_writers_child, entry, sch, root, result)
        st.evaluations += 1
        st.labels[f"schedules_{entry}"] += 1
        case = {"kind": "two_writers", "entry": entry, "schedule": sch}
        if code != 0 or not os.path.exists(result):
            fails.append(("C17:unlisted:scheduler-child-failed", f"{entry} schedule {sch}: child exit {code}", case))
            continue
        out = json.load(open(result))
        os.unlink(result)
        res = out["results"]
        wins = [w for w in ("A", "B") if res.get(w) == "success"]
        # gate order per writer: read, temp-create, temp-write, verify-read, replace  (positions 0..4 of that writer's letters)
        pos = {"A": [i for i, c in enumerate(sch) if c == "A"], "B": [i for i, c in enumerate(sch) if c == "B"]}
        both_verified_before_any_replace = max(pos["A"][3], pos["B"][3]) < min(pos["A"][4], pos["B"][4])
        both_first_compare_before_replace = max(pos["A"][0], pos["B"][0]) < min(pos["A"][4], pos["B"][4])
        if both_first_compare_before_replace:
            st.nontrivial_exact += 1
            st.labels["nontrivial"] += 1
        if any(str(v).startswith("raised") for v in res.values()):
            fails.append(("C17:unlisted:writer-raised", f"{entry} schedule {sch}: {res}", case))
        if len(wins) > 1:
            sig = "C17:verify-then-replace-not-atomic" if both_verified_before_any_replace else "C17:unlisted:two-writers-both-succeed"
            fails.append((sig, f"{entry} schedule {sch}: both writers holding the same base_hash returned success (final text of the file: "
                          f"{(out['final'] or '')[:60]!r})", case))
        elif len(wins) == 1:
            want = TEXTS["B"] if wins[0] == "A" else TEXTS["B"].replace("K::b", "K::second")
            if out["final"] != canon_bytes(want).decode():
                fails.append(("C17:unlisted:final-bytes-not-the-winners", f"{entry} schedule {sch}: winner {wins[0]} but the file holds {out['final'][:80]!r}", case))
        else:
            fails.append(("C17:unlisted:no-writer-succeeded", f"{entry} schedule {sch}: {res}", case))
        if out["leftover"]:
            fails.append(("C17:unlisted:temp-file-left", f"{entry} schedule {sch}: {out['leftover']}", case))
    return fails


def gather_writers(base_dir, st: Stats):
    """N coroutines in ONE event loop: no gating; at most one may succeed."""
    import asyncio

    from octave_mcp.mcp.write import WriteTool

    fails = []
    root = os.path.join(base_dir, "ga")
    for n in (2, 3, 5):
        shutil.rmtree(root, ignore_errors=True)
        os.makedirs(root)
        p = os.path.join(root, "t.oct.md")
        with open(p, "wb") as fh:
            fh.write(TEXTS["A"].encode())
        bh = sha(TEXTS["A"].encode())

        async def go():
            tool = WriteTool()
            return await asyncio.gather(*[tool.execute(target_path=p, content=TEXTS["B"].replace("K::b", f"K::w{i}"), base_hash=bh) for i in range(n)])

        rs = asyncio.run(go())
        st.evaluations += 1
        st.nontrivial_exact += 1
        st.labels["gather_runs"] += 1
        wins = [i for i, r in enumerate(rs) if r.get("status") == "success"]
        if len(wins) != 1:
            fails.append(("C17:unlisted:gather-writers-not-exactly-one-winner", f"{n} overlapping octave_write coroutines with one base_hash: winners {wins}", {"kind": "gather", "n": n}))
        # changes-mode requests in flight together, each with the hash of the file it read (current at the time it is
        # created): every request that reports success must find its key in the final file, or it was overwritten by a
        # writer that held the same hash
        with open(p, "wb") as fh:
            fh.write(TEXTS["A"].encode())

        async def go2():
            tool = WriteTool()
            return await asyncio.gather(*[tool.execute(target_path=p, changes={f"ADDED{i}": i}, base_hash=bh) for i in range(n)])

        rs2 = asyncio.run(go2())
        final = open(p, "rb").read().decode("utf-8", "replace")
        st.evaluations += 1
        st.nontrivial_exact += 1
        st.labels["gather_runs"] += 1
        lost = [i for i, r in enumerate(rs2) if r.get("status") == "success" and f"ADDED{i}::" not in final]
        wins2 = [i for i, r in enumerate(rs2) if r.get("status") == "success"]
        if lost or len(wins2) > 1:
            fails.append(("C17:unlisted:gather-changes-lost-update", f"{n} overlapping changes requests with one base_hash: winners {wins2}, successful requests whose key is "
                          f"missing from the final file: {lost} | final={final!r}", {"kind": "gather", "n": n}))
    return fails


# ---------------------------------------------------------------------------------------------- module interface
def shard_enum(ctx: Ctx, sh: int, nshards: int) -> Stats:
    import asyncio  # noqa: F401

    import octave_mcp.core.file_ops  # noqa: F401
    import octave_mcp.mcp.write  # noqa: F401

    st = Stats()
    jobs = [("incall", "tool", "write"), ("incall", "tool", "changes"), ("incall", "tool", "normalize"), ("incall", "atomic", "write"),
            ("two", "tool"), ("two", "atomic"), ("gather",)]
    with scratch_dir() as base:
        for j, job in enumerate(jobs):
            if j % nshards != sh:
                continue
            if job[0] == "incall":
                fl = incall(job[1], job[2], base, st)
            elif job[0] == "two":
                fl = two_writers(job[1], base, st)
            else:
                fl = gather_writers(base, st)
            for sig, det, case in fl:
                st.fail(sig, case, det)
    if sh == 0:
        st.samples.append({"two_writer_schedule": "AABABBABAB", "gates": GATES})
    return st


def check_case(case) -> list[Failure]:
    st = Stats()
    with scratch_dir() as base:
        k = case.get("kind")
        if k == "history":
            root = os.path.join(base, "h")
            os.makedirs(root)
            fails, _ = run_history(case, root)
            return [Failure(s, case, d) for s, d in fails]
        if k == "incall":
            fl = incall(case["entry"], case["op"], base, st, only=case["k"])
        elif k == "two_writers":
            fl = two_writers(case["entry"], base, st, only=case["schedule"])
        else:
            fl = gather_writers(base, st)
    return [Failure(s, case, d) for s, d, c in fl if c == case or k == "gather"]


def shrink_candidates(case):
    if case.get("kind") == "history":
        s = case["steps"]
        for i in range(len(s)):
            if len(s) > 1:
                yield {**case, "steps": s[:i] + s[i + 1:]}
        if case.get("parent_missing"):
            yield {**case, "parent_missing": False}


def run(ctx: Ctx) -> Stats:
    st = run_sharded(shard_enum, ctx, nshards=7)
    st.exhaustive = True
    st.notes.append("parts (B) and (C) are enumerated completely: every boundary of the 4 calls, all 252 two-writer interleavings per entry point "
                    "(the exhaustive flag refers to them); histories (A) are sampled")
    st.merge(run_sharded(shard_hist, ctx, extra=(ctx.pick(150, 3000),)))
    return st
