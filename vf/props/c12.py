"""C12 — every compiled grammar is well-formed GBNF.

Generator: schemas whose field names cover every branch of the compiler's name handling (case / . / / / - / _ collisions,
non-ASCII, leading digit, the compiler's own rule names) and whose chains come from pools with ENUM/CONST values holding
quotes, backslashes and control characters and a pool of ~40 REGEX patterns; three construction routes (schema document
text, META.CONTRACT document, SchemaDefinition objects through the Python API), with and without envelope, through
GBNFCompiler (fresh instance and one long-lived reused instance), compile_gbnf_from_meta, octave_compile_grammar
(schema= / content=), octave_eject(format=gbnf) and the grammar_hint of INVALID validate/write responses.
Oracle: vf/gbnf.py, an independent parser for llama.cpp's grammar syntax (with recovery so that one malformation does not
hide the next): parses, defines root, defines every reference, no rule twice, no unterminated literal/class, no empty
alternative.
"""

from __future__ import annotations

import os
import re

from vf import gbnf, tools
from vf.common import Ctx, Failure, Stats, drive, run_sharded, scratch_dir
from vf.props import c08

PROP = "C12"
LEVEL = "exploration"
RULE = (
    "Hypothesis schemas of 1-5 fields: names from a 60-name pool (plain, with _ . / -, mixed case pairs that sanitise alike, "
    "non-ASCII, leading digit, and the compiler's own rule names ws field content document root envelope-start envelope-end "
    "meta-block meta-content meta-field number digit string boolean in both cases) x chains from pools (13 kinds; ENUM/CONST "
    "values with quote, backslash, backspace, form feed, tab, newline, non-ASCII; 40 REGEX patterns: literals, escapes, groups, "
    "alternation, {m,n}, classes with ] ^ -, anchors, dot, quotes/backslashes). Routes: schema text via load_schema, META.CONTRACT "
    "via compile_gbnf_from_meta, SchemaDefinition via API; GBNFCompiler fresh and reused instance, envelope on/off; tools "
    "octave_compile_grammar(schema=/content=), octave_eject(format=gbnf), grammar_hint of INVALID validate/write [every 4th]; the "
    "4 packaged schemas always, and the grammar_hint of INVALID responses for 3 packaged schemas x 8 hostile rejected values. Oracle: independent llama.cpp-syntax parser + root/undefined/duplicate/empty-alternative checks. "
    "Non-trivial = >=2 fields with a non-identifier name or a REGEX member; distinct by (route, field list)."
)
ASSUMPTIONS = [
    "llama.cpp's grammar syntax as implemented in its grammar-parser (rule names [a-zA-Z0-9-]+) is the definition of well-formed",
    "the independent parser recovers after an error at the next rule start; problems are attributed to the rule being parsed",
]

PLAIN_NAMES = ["NAME", "STATUS", "COUNT", "KIND", "A", "Zed", "lower", "MiXed", "X9"]
HOSTILE_NAMES = ["MY_FIELD", "a_b", "A.B", "A_dot_B", "x-y", "x_y", "path/to", "A/B", "A_slash_B", "Name", "NAME2", "name2", "Ünï", "naïve", "日本",
                 "9lives", "r_9lives", "_lead", "trail_", "a__b", "A-B", "A_B", "a.b-c", "K.1"]
OWN_RULE_NAMES = ["ws", "WS", "field", "FIELD", "content", "CONTENT", "document", "DOCUMENT", "root", "ROOT", "envelope-start", "ENVELOPE-START",
                  "envelope_start", "envelope-end", "meta-block", "META-BLOCK", "meta_block", "meta-content", "meta-field", "META_FIELD",
                  "number", "NUMBER", "digit", "DIGIT", "string", "boolean", "letter", "alphanum", "null"]
API_ONLY_NAMES = ['q"uote', "back\\slash", "sp ace", "tab\tname", "new\nline", "", "a::b", "[x]", "#tag", "§1", "a\"\\\"b"]
TEXT_NAMES = PLAIN_NAMES + HOSTILE_NAMES + OWN_RULE_NAMES

ENUM_VALUES_TEXT = [["A", "B"], ["DRAFT", "ACTIVE", "DEPRECATED"], ["x-y", "a.b"], ["1", "2"], ["true", "false"], ["PASS", "PASS_WITH_NOTES"]]
HOSTILE_VALUES = ['say "hi"', "back\\slash", "bs\bx", "ff\fx", "tab\tx", "nl\nx", "cr\rx", "é", "日本", "", " ", "a|b", "[x]", "#c", "\\n", '\\"', "x\\", "\x00", "\x1b[0m"]
REGEX_POOL = ["^[a-z]+$", "^[A-Z][a-z]*$", "^[0-9]{3}$", "^(foo|bar)$", "^a.c$", "^x{2,3}$", "^abc$", "abc", "^[a-z]+", "[a-z]*$", "^[^\\]]+$", "^[\\]a]+$",
              "^[a-z-]+$", "^[-a-z]+$", "^[\\^a]+$", "^[^a-z]$", "^\\d{4}$", "^\\w+$", "^a\\.b$", "^a\\\\b$", '^"q"$', "^a\"b$", "^(a|b)+$", "^(a(b|c))*$",
              "^a|b$", "^$", "^.*$", "^.+$", "^?$", "^*$", "^a{2}$", "^a{2,}$", "^a{,3}$", "^[a-z]{1,3}[0-9]?$", "^(?:x)$", "^(?=a)a$", "^a b$", "^é+$",
              "^[é-ü]+$", "^[a-z]+\\$$", "^\\[x\\]$", "^a#b$", "^(unclosed$", "^[unclosed$", "^v[0-9]+\\.[0-9]+$",
              # single classes holding '#', escaped punctuation and escaped backslashes
              "^[#0-9a-f]+$", "[^#]*", "^[\\\\/]+$", "^[a-z:\\\\.]+$", "^[\\\\-]*$", "^[a-z\\-]+$", "^[0-9\\.]+$", "^[\\\\]+$", '^[^\\\\"]+$']
SIMPLE_MEMBERS = ["REQ", "OPT", "TYPE[STRING]", "TYPE[NUMBER]", "TYPE[BOOLEAN]", "TYPE[LIST]", "DATE", "ISO8601", "DIR", "APPEND_ONLY", "RANGE[1,10]",
                  "MIN_LENGTH[0]", "MIN_LENGTH[2]", "MAX_LENGTH[5]", "CONST[X]", "CONST[5]", 'CONST["a b"]', "CONST[true]",
                  "ENUM[]", "ENUM[,]", "ENUM[ ]", "ENUM[A,]", "ENUM[,A]", 'ENUM[""]', "CONST[]", 'CONST[""]',  # (blank members)
                  # bounds and tags that the constraint reader accepts although they are not the usual kind
                  "MAX_LENGTH[true]", "MIN_LENGTH[false]", "MAX_LENGTH[0]", "MIN_LENGTH[2]∧MAX_LENGTH[5]", "MAX_LENGTH[100000]",
                  "TYPE[LITERAL]", "LANG[python]", 'LANG["c++"]', 'LANG["python"]', 'LANG[say"hi]', "LANG[tex\\math]", "LANG[C#]"]

SYNTAX = {"expecting-name", "expecting-assign", "bad-escape", "unterminated-literal", "unterminated-class", "unbalanced-paren", "bad-repetition",
          "dangling-repetition", "expecting-newline", "unterminated"}
STRUCTURAL = {"ws", "field", "content", "document", "root", "envelope-start", "envelope-end", "meta-block", "meta-content", "meta-field"}
_REUSED = {}


# ---------------------------------------------------------------------------------------------- building schemas
def api_schema(name, fields):
    """fields: [(field_name, [member spec])] where member spec is text or ('ENUM', [values]) / ('CONST', value) / ('REGEX', pattern)."""
    from octave_mcp.core.constraints import ConstConstraint, ConstraintChain, EnumConstraint, RegexConstraint
    from octave_mcp.core.holographic import HolographicPattern
    from octave_mcp.core.schema_extractor import FieldDefinition, SchemaDefinition

    sd = SchemaDefinition(name=name, version="1.0")
    for fname, members in fields:
        cs = []
        for m in members:
            if isinstance(m, (list, tuple)):
                kind, arg = m
                if kind == "ENUM":
                    cs.append(EnumConstraint(allowed_values=list(arg)))
                elif kind == "CONST":
                    cs.append(ConstConstraint(const_value=arg))
                else:
                    try:
                        cs.append(RegexConstraint(pattern=arg))
                    except ValueError:
                        continue  # not a valid Python regex: the schema reader rejects it, outside the domain
            else:
                cs.extend(ConstraintChain.parse(m).constraints)
        sd.fields[fname] = FieldDefinition(name=fname, pattern=HolographicPattern(example=None, constraints=ConstraintChain(cs), target=None), raw_value="")
    return sd


def member_text(m) -> str | None:
    """Text form for the schema-document / CONTRACT routes, or None if the member cannot be written there."""
    if not isinstance(m, (list, tuple)):
        return m
    kind, arg = m
    if kind == "ENUM":
        if all(re.fullmatch(r"[A-Za-z0-9_.-]+", v) for v in arg):
            return "ENUM[" + ",".join(arg) + "]"
        return None
    if kind == "CONST":
        return f"CONST[{arg}]" if re.fullmatch(r"[A-Za-z0-9_.-]+", str(arg)) else None
    if kind == "REGEX":
        if '"' in arg or "\\" in arg or "∧" in arg or "\n" in arg:
            return None
        try:
            re.compile(arg)
        except re.error:
            return None
        return f'REGEX["{arg}"]'
    return None


def problems_of(grammar_text: str):
    try:
        g, probs = gbnf.check(grammar_text)
    except RecursionError:
        return [("parser-recursion", "?", "independent parser exceeded recursion depth")]
    return probs


# ---------------------------------------------------------------------------------------------- classification
def classify(prob, fields, route) -> str:
    """Known classes are predicates over the schema AND the problem's class/location."""
    cls, rule, msg = prob
    names = [f for f, _ in fields]
    san = {f: sanitize(f) for f in names}
    by_rule = {}
    for f in names:
        by_rule.setdefault(san[f], []).append(f)
    deciding: dict = {}
    for f, ms in fields:
        deciding.setdefault(san[f], set()).add(deciding_member(ms))
    if cls == "rule-name-charset":
        m = re.search(r"name '([^']*)'", msg)
        nm = m.group(1) if m else ""
        if "_" in nm and all(ch in gbnf.LENIENT_WORD for ch in nm) and nm in by_rule:
            return "C12:rule-name-with-underscore"
    if cls == "dup-rule":
        if rule in STRUCTURAL and rule in by_rule:
            return "C12:field-name-equals-structural-rule"
        if rule in by_rule and len(by_rule[rule]) > 1:
            return "C12:field-names-sanitise-alike"
    if rule in deciding and "REGEX" in deciding[rule] and _regex_copy_malformed([ms for f, ms in fields if san[f] == rule]) and cls in ("undefined-ref", "expecting-newline", "bad-escape", "unterminated-class", "unterminated-literal",
                                                                   "unbalanced-paren", "bad-repetition", "dangling-repetition", "empty-alt", "rule-name-charset",
                                                                   "expecting-assign", "expecting-name"):
        return "C12:regex-passed-through-as-gbnf"
    if cls in ("unterminated-literal", "expecting-newline", "bad-escape", "expecting-assign", "expecting-name", "undefined-ref", "rule-name-charset") and rule in by_rule \
            and any(re.search(r'["\\\n\r]', f) for f in by_rule[rule]):
        return "C12:field-name-interpolated-unescaped"
    return f"C12:unlisted:{cls}"


_COPY_CACHE: dict = {}


def _regex_copy_malformed(member_lists) -> bool:
    """The known finding is: the pattern text (anchors stripped) is copied into the grammar although it is not GBNF. It
    explains a problem only if that verbatim copy really is malformed GBNF; a pattern whose copy is fine GBNF (a plain
    character class such as [\\\\/]+) must come out well-formed, and a problem in its rule is a violation of its own."""
    for ms in member_lists:
        for m in ms:
            if isinstance(m, tuple) and m[0] == "REGEX":
                pat = m[1]
                if pat not in _COPY_CACHE:
                    body = pat[1:] if pat.startswith("^") else pat
                    body = body[:-1] if body.endswith("$") and not body.endswith("\\$") else body
                    _, probs = gbnf.check('root ::= "K" ' + body + "\n")
                    _COPY_CACHE[pat] = bool(probs) or not body
                if _COPY_CACHE[pat]:
                    return True
    return False


def sanitize(field_name: str) -> str:
    """The documented name mapping (docstring of _sanitize_rule_name), re-stated for classification only."""
    r = field_name.lower().replace(".", "_dot_").replace("/", "_slash_").replace("-", "_")
    out = []
    for ch in r:
        if ch.isascii() and (ch.isalnum() or ch == "_"):
            out.append(ch)
        elif not ch.isascii():
            out.append(f"_u{ord(ch):x}_")
    r = "".join(out)
    if r and r[0].isdigit():
        r = "r_" + r
    while "__" in r:
        r = r.replace("__", "_")
    return r.strip("_") or "unnamed_field"


def deciding_member(members) -> str:
    kinds = []
    for m in members:
        kinds.append(m[0] if isinstance(m, (list, tuple)) else re.match(r"[A-Z_0-9]+", m).group(0))
    for k in ("CONST", "ENUM", "REGEX", "TYPE", "DATE", "ISO8601"):
        if k in kinds:
            return k
    return kinds[0] if kinds else "NONE"


# ---------------------------------------------------------------------------------------------- one case
def grammars_for(case, root, with_tools):
    """Yield (route, grammar_text)."""
    from octave_mcp.core.gbnf_compiler import GBNFCompiler, compile_gbnf_from_meta
    from octave_mcp.schemas.loader import load_schema

    name = case["name"]
    fields = [(f, [tuple(m) if isinstance(m, list) else m for m in ms]) for f, ms in case["fields"]]
    if "reused" not in _REUSED:
        _REUSED["reused"] = GBNFCompiler()
    # ---- API route (always possible)
    sd = api_schema(name, fields)
    for env in (False, True):
        yield f"api-fresh-env{int(env)}", GBNFCompiler().compile_schema(sd, include_envelope=env)
    yield "api-reused", _REUSED["reused"].compile_schema(sd, include_envelope=True)
    # ---- the packaged integration helpers (Python API for llama.cpp and vLLM users)
    from octave_mcp.integrations import llama_cpp as i_llama
    from octave_mcp.integrations import vllm as i_vllm

    for env in (False, True):
        yield f"integration-llama_cpp-env{int(env)}", i_llama.schema_to_gbnf(sd, include_envelope=env)
        yield f"integration-vllm-env{int(env)}", i_vllm.schema_to_vllm_grammar(sd, include_envelope=env)
    g0 = GBNFCompiler().compile_schema(sd, include_envelope=True)
    yield "integration-format_for_llama_cpp", i_llama.format_for_llama_cpp(g0)
    yield "integration-format_for_vllm", i_vllm.format_for_vllm(g0)
    # ---- text routes
    text_fields = []
    for f, ms in fields:
        tm = [member_text(m) for m in ms]
        if all(t is not None for t in tm) and f in TEXT_NAMES:
            text_fields.append((f, tm))
    if text_fields:
        sdir = os.path.join(root, "specs", "schemas")
        os.makedirs(sdir, exist_ok=True)
        spath = os.path.join(sdir, name.lower() + ".oct.md")
        stext = c08.schema_text(name, "REJECT", text_fields)
        with open(spath, "w", encoding="utf-8") as fh:
            fh.write(stext)
        try:
            try:
                sd2 = load_schema(spath)
            except Exception:
                sd2 = None  # the schema reader does not accept this text: outside the domain
            if sd2 is not None and sd2.fields:
                yield "text-loaded", GBNFCompiler().compile_schema(sd2, include_envelope=True)
                yield "text-reused", _REUSED["reused"].compile_schema(sd2, include_envelope=False)
                if with_tools:
                    old = os.getcwd()
                    os.chdir(root)
                    try:
                        r = tools.compile_grammar(schema=name)
                        if r.get("status") == "success":
                            yield "tool-compile-schema", r["grammar"]
                        r = tools.compile_grammar(content=stext)
                        if r.get("status") == "success":
                            yield "tool-compile-content", r["grammar"]
                        r = tools.eject(content=stext, schema=name, format="gbnf")
                        if r.get("format") == "gbnf":
                            yield "tool-eject-gbnf", r["output"]
                        inst = f"===I===\nMETA:\n  TYPE::T\n{name}:\n  ZZ_UNKNOWN::1\n===END===\n"
                        r = tools.validate(content=inst, schema=name, grammar_hint=True)
                        if isinstance(r.get("grammar_hint"), dict) and "grammar" in r["grammar_hint"]:
                            yield "tool-validate-hint", r["grammar_hint"]["grammar"]
                        r = tools.write(target_path=os.path.join(root, "h.oct.md"), content=inst, schema=name, grammar_hint=True, corrections_only=True)
                        if isinstance(r.get("grammar_hint"), dict) and "grammar" in r["grammar_hint"]:
                            yield "tool-write-hint", r["grammar_hint"]["grammar"]
                    finally:
                        os.chdir(old)
        finally:
            try:
                os.unlink(spath)
            except OSError:
                pass
        # ---- CONTRACT route
        contract_items = [f'"FIELD[{f}]::{"∧".join(tm)}"' for f, tm in text_fields if re.fullmatch(r"[A-Za-z0-9_.-]+", f) and not any('"' in t for t in tm)]
        if contract_items:
            ctext = f"===DOC===\nMETA:\n  TYPE::{name}\n  VERSION::\"1.0\"\n  CONTRACT::[{','.join(contract_items)}]\n===END===\n"
            try:
                from octave_mcp import parse

                d = parse(ctext)
                yield "contract-meta", compile_gbnf_from_meta(d.meta)
                if with_tools:
                    r = tools.compile_grammar(content=ctext)
                    if r.get("status") == "success":
                        yield "tool-compile-contract", r["grammar"]
                    r = tools.eject(content=ctext, schema=name, format="gbnf")
                    if r.get("format") == "gbnf":
                        yield "tool-eject-contract", r["output"]
            except Exception:
                pass


def passes_through(pattern: str) -> bool:
    """Predicate of the known finding regex-passed-through-as-gbnf: the pattern is neither degraded to [^\\n]+ (features the
    compiler documents as unsupported) nor a single character class, so its text is copied into the grammar."""
    p = pattern.lstrip("^").rstrip("$")
    if any(u in p for u in ["(?", "\\b", "\\B", "\\d", "\\w", "\\s", "\\D", "\\W", "\\S"]):
        return False
    m = re.match(r"^\[([^\]]+)\]([+*?]?)$", p)
    if m:
        # a single class is copied too (body verbatim): the known finding applies only when that copy is not valid GBNF
        _, probs = gbnf.check('root ::= "K" ' + p + "\n")
        return bool(probs)
    return bool(p) and p not in ["+", "*", "?"]


def _problems(case, root, with_tools):
    out = {}
    nroutes = 0
    fields = [(f, [tuple(m) if isinstance(m, list) else m for m in ms]) for f, ms in case["fields"]]
    try:
        for route, text in grammars_for(case, root, with_tools):
            nroutes += 1
            if not isinstance(text, str):
                out.setdefault("C12:unlisted:not-a-string", f"{route}: grammar is {type(text).__name__}")
                continue
            for prob in problems_of(text):
                sig = classify(prob, fields, route)
                out.setdefault(sig, f"[{route}] {prob[0]} in rule {prob[1]!r}: {prob[2]} | fields={case['fields']!r} | grammar={text!r}"[:1800])
    except Exception as e:
        import traceback

        out.setdefault("C12:unlisted:compiler-raised", f"compiler raised {e!r} for {case['fields']!r}: {traceback.format_exc()[-600:]}")
    return out, nroutes


def check(case, root, with_tools=True):
    """A copied-through REGEX (known finding) can corrupt everything after it (a stray quote swallows the following rules), so
    such a schema is checked twice: as it is, keeping only the known class (the finding still reproduces), and as its twin
    with those REGEX members replaced by REQ, where every problem counts. Nothing hides behind the known malformation."""
    def is_pt(m):
        return isinstance(m, (list, tuple)) and m[0] == "REGEX" and passes_through(m[1])

    if any(is_pt(m) for _, ms in case["fields"] for m in ms):
        orig, n1 = _problems(case, root, with_tools)
        twin = {**case, "fields": [[f, ["REQ" if is_pt(m) else m for m in ms]] for f, ms in case["fields"]]}
        tw, n2 = _problems(twin, root, with_tools)
        fails = {k: v for k, v in orig.items() if k == "C12:regex-passed-through-as-gbnf"}
        for k, v in tw.items():
            fails.setdefault(k, "[twin with copied-through REGEX members replaced by REQ] " + v)
        return list(fails.items()), n1 + n2
    fails, n = _problems(case, root, with_tools)
    return list(fails.items()), n


def strategy():
    from hypothesis import strategies as hs

    enum_m = hs.one_of(hs.sampled_from(ENUM_VALUES_TEXT), hs.lists(hs.sampled_from(HOSTILE_VALUES + ["A", "B"]), min_size=1, max_size=3, unique=True)
                       ).map(lambda v: ["ENUM", list(v)])
    const_m = hs.sampled_from(HOSTILE_VALUES + ["X", "5"]).map(lambda v: ["CONST", v])
    regex_m = hs.sampled_from(REGEX_POOL).map(lambda p: ["REGEX", p])
    member = hs.one_of(hs.sampled_from(SIMPLE_MEMBERS), hs.sampled_from(SIMPLE_MEMBERS), enum_m, const_m, regex_m, regex_m)
    chain = hs.lists(member, min_size=1, max_size=3)
    fname = hs.one_of(hs.sampled_from(PLAIN_NAMES), hs.sampled_from(HOSTILE_NAMES), hs.sampled_from(OWN_RULE_NAMES), hs.sampled_from(API_ONLY_NAMES))
    fields = hs.lists(hs.tuples(fname, chain), min_size=1, max_size=5, unique_by=lambda t: t[0])
    return hs.builds(lambda n, f: {"name": n, "fields": [[a, list(b)] for a, b in f]}, hs.sampled_from(["GEN_G", "WIDGET", "A1"]), fields)


def nontrivial(case) -> bool:
    fs = case["fields"]
    return len(fs) >= 2 and any((f not in PLAIN_NAMES) or any(isinstance(m, list) and m[0] == "REGEX" for m in ms) for f, ms in fs)


def shard(ctx: Ctx, sh: int, nshards: int, n: int) -> Stats:
    st = Stats()
    counter = [0]
    with scratch_dir() as root:
        if sh == 0:
            packaged(st)
        if sh == 1 % nshards:
            packaged_hints(st, root)

        def one(case):
            counter[0] += 1
            fails, nroutes = check(case, root, with_tools=(counter[0] % 4 == 0))
            st.case(case, nontrivial=nontrivial(case), labels=[f"routes_{min(nroutes, 9)}"], n=max(1, nroutes))
            for sig, det in fails:
                st.fail(sig, case, det)

        drive(strategy(), one, ctx.shard_seed(sh, 51), n, chunk=4000)
    return st


def packaged(st: Stats):
    from octave_mcp.core.gbnf_compiler import GBNFCompiler
    from octave_mcp.schemas.loader import load_schema_by_name

    for nm in ("META", "SKILL", "DEBATE_TRANSCRIPT", "TEST_HOLOGRAPHIC"):
        sd = load_schema_by_name(nm)
        if sd is None:
            continue
        fields = [(f, [c.to_string() for c in (fd.pattern.constraints.constraints if fd.pattern and fd.pattern.constraints else [])] or ["OPT"])
                  for f, fd in sd.fields.items()]
        fields = [(f, [re.sub(r"TYPE\((\w+)\)", r"TYPE[\1]", m) for m in ms]) for f, ms in fields]
        for env in (False, True):
            text = GBNFCompiler().compile_schema(sd, include_envelope=env)
            st.evaluations += 1
            st.labels["packaged_schema"] += 1
            for prob in problems_of(text):
                try:
                    sig = classify(prob, fields, "packaged")
                except Exception:
                    sig = f"C12:unlisted:{prob[0]}"
                st.fail(sig, {"packaged": nm, "envelope": env}, f"[packaged {nm}] {prob[0]} in rule {prob[1]!r}: {prob[2]}")


HOSTILE_REJECTED = ['"bad\\nvalue"', '"x\\nroot ::= [a-z]+"', '"say \\"hi\\""', '"# not a comment"', '"a\\tb"', "nope", '"\\\\"', '"é\u2028z"']


def packaged_hints(st: Stats, root: str):
    """grammar_hint of INVALID validate / write responses for the packaged schemas, with hostile rejected values."""
    for val in HOSTILE_REJECTED:
        docs = {"META": f"===D===\nMETA:\n  TYPE::T\n  VERSION::\"1\"\n  STATUS::{val}\n===END===\n",
                "SKILL": f"===D===\nMETA:\n  TYPE::{val}\n  VERSION::\"1\"\n  STATUS::{val}\n===END===\n",
                "DEBATE_TRANSCRIPT": f"===D===\nMETA:\n  TYPE::T\nDEBATE_TRANSCRIPT:\n  MAX_ROUNDS::{val}\n  PARTICIPANTS::{val}\n  STATUS::{val}\n===END===\n"}
        for nm, text in docs.items():
            for view, call in (("validate", lambda: tools.validate(content=text, schema=nm, grammar_hint=True)),
                               ("write", lambda: tools.write(target_path=os.path.join(root, "ph.oct.md"), content=text, schema=nm, grammar_hint=True, corrections_only=True))):
                try:
                    r = call()
                except Exception:
                    continue
                st.evaluations += 1
                st.labels["packaged_hint_calls"] += 1
                gh = r.get("grammar_hint")
                if isinstance(gh, dict) and isinstance(gh.get("grammar"), str):
                    st.labels["packaged_hints_checked"] += 1
                    for prob in problems_of(gh["grammar"]):
                        if prob[0] == "rule-name-charset" and "_" in prob[2]:
                            sig = "C12:rule-name-with-underscore"
                        else:
                            sig = f"C12:unlisted:hint:{prob[0]}"
                        st.fail(sig, {"packaged_hint": nm, "value": val, "view": view}, f"[{view} grammar_hint, schema {nm}, rejected value {val}] {prob[0]} in rule {prob[1]!r}: {prob[2]} | grammar={gh['grammar'][:600]!r}")


def check_case(case) -> list[Failure]:
    if "packaged_hint" in case:
        st = Stats()
        with scratch_dir() as root:
            packaged_hints(st, root)
        return [f for fl in st.failures.values() for f in fl if f.case == case]
    if "packaged" in case:
        st = Stats()
        packaged(st)
        return [f for fl in st.failures.values() for f in fl if f.case == case]
    with scratch_dir() as root:
        fails, _ = check(case, root, with_tools=True)
    return [Failure(s, case, d) for s, d in fails]


def shrink_candidates(case):
    if "packaged" in case or "packaged_hint" in case:
        return
    fs = case["fields"]
    for i in range(len(fs)):
        if len(fs) > 1:
            yield {**case, "fields": fs[:i] + fs[i + 1:]}
    for i, (f, ms) in enumerate(fs):
        for j in range(len(ms)):
            if len(ms) > 1:
                yield {**case, "fields": fs[:i] + [[f, ms[:j] + ms[j + 1:]]] + fs[i + 1:]}
        if f != "NAME" and "NAME" not in [x for x, _ in fs]:
            yield {**case, "fields": fs[:i] + [["NAME", ms]] + fs[i + 1:]}


def run(ctx: Ctx) -> Stats:
    return run_sharded(shard, ctx, extra=(ctx.pick(1500, 12000),))
