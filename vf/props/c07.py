"""C07 — every lenient rewrite has a receipt; canonical input has none (I4).

Generator: model documents rendered leniently; the renderer records every rewrite it injects (kind, original lexeme,
replacement, line, column) and counts alias characters it places inside strings, comments and zones (negative sites).
Oracle: multiset equality between injected rewrites and the receipts of kind normalization / multi_word_coalesce /
curly_brace_annotation, in parse_with_warnings, tokenize(lenient=True), octave_validate.repairs and repair_log,
octave_write.corrections (lenient and strict) with compilations a subset of corrections; none for canonical input.
"""

from __future__ import annotations

import collections
import zlib
import os

from vf import docprop, model, tools
from vf.common import Ctx, Failure, Stats, drive, scratch_dir

PROP = "C07"
LEVEL = "exploration"
RULE = (
    "Hypothesis model documents rendered in 2 (thorough 3) seeded lenient spellings (one of them with NAME{q} brace "
    "annotations) plus the canonical text; the renderer's own list of injected rewrites (ASCII aliases -> + ~ vs <-> | & # "
    "incl. inside lists, patterns, block targets and section markers; triple-quoted strings; bare multi-word values; brace "
    "annotations) is the ground truth, with line and NFC column. Oracle: the multiset {(kind, original, replacement, line, "
    "column)} equals the receipts of those kinds from parse_with_warnings, tokenize(lenient), octave_validate.repairs / "
    "repair_log, octave_write.corrections (lenient=true and false) [tools on every 3rd case]; compilations is a subset of "
    "corrections; canonical text yields none. Advisory receipts (spec_violation, duplicate_key, deep_nesting, ...) rewrite "
    "nothing and are counted, not asserted. Non-trivial = >=2 rewrites of >=2 kinds, or >=1 protected alias occurrence; "
    "distinct by text."
)
ASSUMPTIONS = [
    "column numbers are counted on the NFC form of the line, as the reader normalises each line before tokenising",
    "receipts typed spec_violation / lenient_parse advisories (duplicate_key, deep_nesting, constructor_misuse, ...) are not rewrites",
    "octave_write.compilations is capped at five entries by design (ADR-0005) and therefore only checked for inclusion",
]
DOC_KW = dict(depth=3, zones=True, comments=True, max_nodes=5, meta_zones=True)
AVOID = frozenset({"comment_after_empty", "cr"})
_N = {"n": 0}


def _key(kind, original, repl, line, col):
    if isinstance(original, list):
        original = tuple(original)
    return (kind, original, repl, line, col)


VALIDATE_FLAGS = [{}, {"compact": True}, {}, {"diff_only": True}, {}, {"compact": True, "diff_only": True}, {}, {"profile": "STRICT"}, {}, {"fix": True}]


def expected(info) -> collections.Counter:
    c = collections.Counter()
    for r in info["rewrites"]:
        if r["type"] == "normalization":
            c[_key("norm", r["original"], r["normalized"], r["line"], r["column"])] += 1
        elif r["type"] == "lenient_parse":
            c[_key("multiword", r["original"], r["result"], r["line"], r["column"])] += 1
        elif r["type"] == "repair_candidate":
            c[_key("curly", r["original"], r["repaired"], r["line"], r["column"])] += 1
    return c


def from_warnings(ws) -> tuple[collections.Counter, int]:
    c = collections.Counter()
    adv = 0
    for r in ws:
        t = r.get("type")
        if t == "normalization":
            c[_key("norm", r.get("original"), r.get("normalized"), r.get("line"), r.get("column"))] += 1
        elif t == "lenient_parse" and r.get("subtype") == "multi_word_coalesce":
            c[_key("multiword", r.get("original"), r.get("result"), r.get("line"), r.get("column"))] += 1
        elif t == "repair_candidate" and r.get("subtype") == "curly_brace_annotation":
            c[_key("curly", r.get("original"), r.get("repaired"), r.get("line"), r.get("column"))] += 1
        else:
            adv += 1
    return c, adv


def from_corrections(cs) -> tuple[collections.Counter, int]:
    c = collections.Counter()
    adv = 0
    for r in cs:
        code = r.get("code")
        if code == "W002":
            c[_key("norm", r.get("before"), r.get("after"), r.get("line"), r.get("column"))] += 1
        elif code == "W_LENIENT_MULTI_WORD_COALESCE":
            c[_key("multiword", r.get("before"), r.get("after"), r.get("line"), r.get("column"))] += 1
        elif code == "W_REPAIR_CANDIDATE":
            c[_key("curly", r.get("before"), r.get("after"), r.get("line"), r.get("column"))] += 1
        else:
            adv += 1
    return c, adv


def diff(want: collections.Counter, got: collections.Counter) -> str:
    missing = want - got
    extra = got - want
    parts = []
    if missing:
        parts.append("missing receipts: " + repr(sorted(missing.elements(), key=repr)[:4]))
    if extra:
        parts.append("unexpected receipts: " + repr(sorted(extra.elements(), key=repr)[:4]))
    return "; ".join(parts)


def classify(view, want, got) -> str:
    missing = want - got
    extra = got - want
    kinds = sorted({k[0] for k in missing} | {k[0] for k in extra})
    shape = ("missing" if missing else "") + ("+extra" if extra else "")
    return f"C07:unlisted:{view}:{shape}:{','.join(kinds)}"


def oracle(doc, sp, text, info, with_tools=None):
    from octave_mcp import emit, parse
    from octave_mcp.core.lexer import LexerError, tokenize
    from octave_mcp.core.parser import ParserError, parse_with_warnings

    fails = []
    want = expected(info)
    curly = any(k[0] == "curly" for k in want)
    want_nocurly = collections.Counter({k: v for k, v in want.items() if k[0] != "curly"})
    # ---- lexer view (knows aliases, triple quotes and brace annotations; not the parser-level coalescing)
    try:
        _, reps = tokenize(model_strip_frontmatter(text), lenient=True)
        got, _ = from_warnings(reps)
        w = collections.Counter({k: v for k, v in want.items() if k[0] != "multiword"})
        if got != w:
            fails.append((classify("tokenize", w, got), f"tokenize(lenient=True): {diff(w, got)} | text={text!r}"))
    except LexerError as e:
        fails.append(("C07:unlisted:tokenize:rejected", f"lenient tokenizer rejects a documented spelling: {e} | text={text!r}"))
    c1 = None
    if not curly:
        try:
            d, ws = parse_with_warnings(text)
            c1 = emit(d)
        except (LexerError, ParserError) as e:
            return fails + [("C07:unlisted:parse:rejected", f"reader rejects a documented spelling: {e} | text={text!r}"[:1800])]
        got, adv = from_warnings(ws)
        if got != want:
            fails.append((classify("parse_with_warnings", want, got), f"parse_with_warnings: {diff(want, got)} | text={text!r}"))
        # canonical text: no receipts at all of these kinds
        try:
            _, ws2 = parse_with_warnings(c1)
            got2, _ = from_warnings(ws2)
            if got2:
                fails.append(("C07:unlisted:canonical-has-receipts", f"canonical text yields receipts {sorted(got2.elements(), key=repr)[:4]!r} | canonical={c1!r}"))
        except (LexerError, ParserError):
            pass  # C01's business
    _N["n"] += 1
    if with_tools if with_tools is not None else (zlib.crc32(text.encode("utf-8", "surrogatepass")) % 3 == 0):
        if not curly:
            # the receipts are surfaced whatever output flags the call carries (rotated; the plain call every second time)
            # (chosen by a digest of the text, not by the call counter: counters correlate with the document index)
            flags = VALIDATE_FLAGS[(zlib.crc32(text.encode("utf-8", "surrogatepass")) >> 4) % len(VALIDATE_FLAGS)] if with_tools is None else {}
            for fl in ([flags] if with_tools is None else VALIDATE_FLAGS):
                r = tools.validate(content=text, schema="META", **fl)
                if r.get("status") == "success":
                    for fld in ("repairs", "repair_log"):
                        got, _ = from_warnings(r.get(fld) or [])
                        if got != want:
                            tag = "+".join(sorted(fl)) or "plain"
                            fails.append((classify("validate." + fld, want, got) + (":" + tag if fl else ""), f"octave_validate({tag}).{fld}: {diff(want, got)} | text={text!r}"))
            if c1 is not None:
                r = tools.validate(content=c1, schema="META")
                got, _ = from_warnings(r.get("repairs") or [])
                if got:
                    fails.append(("C07:unlisted:validate-canonical-has-receipts", f"octave_validate on canonical text reports {sorted(got.elements(), key=repr)[:3]!r}"))
        with scratch_dir() as root:
            path = os.path.join(root, "r.oct.md")
            w = tools.write(target_path=path, content=text, lenient=True)
            if w.get("status") == "success":
                got, _ = from_corrections(w.get("corrections") or [])
                if got != want:
                    fails.append((classify("write-lenient.corrections", want, got), f"octave_write(lenient=true).corrections: {diff(want, got)} | text={text!r}"))
                pool = collections.Counter(str(c.get("before")) for c in (w.get("corrections") or []))
                for comp in w.get("compilations") or []:
                    if isinstance(comp, dict) and pool[comp.get("source")] <= 0:
                        fails.append(("C07:unlisted:write.compilations-not-in-corrections", f"compilation {comp!r} has no correction"))
                        break
                # the file just written is canonical: writing it again must report nothing
                w2 = tools.write(target_path=path, lenient=True, content=open(path, encoding="utf-8", newline="").read())
                got2, _ = from_corrections(w2.get("corrections") or [])
                if got2:
                    fails.append(("C07:unlisted:write-canonical-has-receipts", f"octave_write of canonical text reports {sorted(got2.elements(), key=repr)[:3]!r}"))
            elif not info.get("may_be_refused"):  # (NAME{q} with a non-ASCII letter: refusing it is the documented limitation, rewriting it silently is not)
                fails.append(("C07:unlisted:write-lenient:refused", f"octave_write(lenient=true) refuses: {w.get('errors')} | text={text!r}"))
            if not curly:
                p2 = os.path.join(root, "s.oct.md")
                w = tools.write(target_path=p2, content=text, lenient=False)
                if w.get("status") == "success":
                    got, _ = from_corrections(w.get("corrections") or [])
                    if got != want:
                        fails.append((classify("write-strict.corrections", want, got), f"octave_write(lenient=false).corrections: {diff(want, got)} | text={text!r}"))
                # a hand-written file already on disk: normalize mode, its dry run, and a write of the identical text report
                # the same receipts as a first write of that text
                if "\r" not in text:
                    p3 = os.path.join(root, "hand.oct.md")
                    for view, kw in (("write-normalize-dry", {"corrections_only": True}), ("write-same-content", {"content": text, "corrections_only": True}), ("write-normalize", {})):
                        with open(p3, "w", encoding="utf-8", newline="") as fh:
                            fh.write(text)
                        w = tools.write(target_path=p3, **kw)
                        if w.get("status") == "success":
                            got, _ = from_corrections(w.get("corrections") or [])
                            if got != want:
                                fails.append((classify(view + ".corrections", want, got), f"octave_write({view}) on a hand-written file: {diff(want, got)} | text={text!r}"))
    seen = {}
    for s, d in fails:
        seen.setdefault(s, d)
    return [(s, d[:1800]) for s, d in seen.items()]


def model_strip_frontmatter(text: str) -> str:
    """tokenize() is documented to take frontmatter-free text; blank the frontmatter keeping line numbers."""
    if not text.startswith("---"):
        return text
    lines = text.split("\n")
    for i in range(1, len(lines)):
        if lines[i].strip() == "---":
            return "\n" * (i + 1) + "\n".join(lines[i + 1:])
    return text


LONG_TEXT = ("the quick brown fox (v2) jumps over the lazy dog; it does so again and again, " * 3).strip()


def render(doc, sp):
    """docprop.render_case plus two C07-specific freedoms carried in the spelling record: `lead` blank lines before the first
    line of the text (every receipt moves down by that many lines) and `long`: one more field holding a 240-character text
    (what a rewrite became is reported in full, however long it is)."""
    if sp.get("long"):
        doc = {**doc, "body": doc["body"] + [{"t": "assign", "key": "LONGTEXT", "value": {"v": "str", "s": LONG_TEXT, "cls": "hostile"}, "lead": [], "trail": None}]}
    text, info = docprop.render_case(doc, sp)
    k = sp.get("lead", 0)
    if k and doc.get("frontmatter") is None and doc.get("sentinel") is None:
        text = "\n" * k + text
        info = {**info, "rewrites": [{**r, "line": r["line"] + k} for r in info["rewrites"]]}
    return text, info


def shard(ctx: Ctx, sh: int, nshards: int, per_shard: int) -> Stats:
    st = Stats()
    counter = [0]

    def one(doc):
        i = counter[0]
        counter[0] += 1
        for sp in docprop.spellings_for(i, ctx.shard_seed(sh), ctx.pick(2, 3), curly=True):
            if i % 5 == 2:
                sp = {**sp, "lead": 1 + i % 3}
            if i % 4 == 1 and not (doc["body"] and doc["body"][-1]["t"] in ("zone",)):
                sp = {**sp, "long": True}
            text, info = render(doc, sp)
            want = expected(info)
            kinds = {k[0] + ":" + (k[1] if isinstance(k[1], str) and k[0] == "norm" and k[1] != '"""' else "") for k in want}
            nt = (sum(want.values()) >= 2 and len({k.split(":")[0] + k.split(":")[1][:1] for k in kinds}) >= 2) or info["protected"] > 0
            labels = ["sp_" + sp["k"]] + ["rw_" + k for k in sorted(kinds)] + (["protected_sites"] if info["protected"] else []) \
                + (["leading_blank_lines"] if text.startswith("\n") else []) + (["long_rewrite_result"] if any(isinstance(k[2], str) and len(k[2]) > 160 for k in want) else []) \
                + (["no_rewrites"] if not want else [])
            fails = oracle(doc, sp, text, info)
            st.case({"text": text, "rewrites": info["rewrites"][:6]}, nontrivial=nt, labels=labels, key=text)
            for sig, det in fails:
                st.fail(sig, {"doc": doc, "sp": sp}, det)

    drive(model.document(**dict(DOC_KW, avoid=AVOID)), one, ctx.shard_seed(sh, 11), per_shard)
    return st


def check_case(case) -> list[Failure]:
    text, info = render(case["doc"], case["sp"])
    return [Failure(s, case, d) for s, d in oracle(case["doc"], case["sp"], text, info, with_tools=True)]


def shrink_candidates(case):
    for d in model.shrink_candidates(case["doc"]):
        yield {**case, "doc": d}
    if case["sp"]["k"] != "canon" and case["sp"].get("level", 0.6) > 0.3:
        yield {**case, "sp": {**case["sp"], "level": 0.3}}
    for extra in ("lead", "long"):
        if case["sp"].get(extra):
            yield {**case, "sp": {k: v for k, v in case["sp"].items() if k != extra}}


def run(ctx: Ctx) -> Stats:
    return docprop.run_docs(ctx, shard, ctx.pick(400, 5000))
