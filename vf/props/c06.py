"""C06 — results depend only on the input: same bytes in, same bytes out, everywhere.

Generator: one batch of generated calls (octave_validate, octave_write to per-call paths, octave_eject x modes x formats,
octave_compile_grammar, and direct emit / seal / hash / Validator / reused GBNFCompiler) over model documents, instances
of a planted schema (incl. values that are ambiguous ENUM prefixes, several unknown fields, several errors at once) and
schema documents whose field names collide with the compiler's own rule names.
Oracle (differential, implementation against itself under changed *configuration*): worker processes
(vf/det_worker.py) started with PYTHONHASHSEED in {0, 1, 4242, random}, two different working directories (each holding
the same planted specs/schemas; one also holds unrelated files), LANG/LC_ALL in {C.UTF-8, C, POSIX}, and mode in {plain,
long-lived process that first serves a seed-shuffled permutation of the same calls, all tool calls as tasks of one
asyncio event loop} must return, for every call, a byte-identical serialised envelope (key order kept, routing
timestamps masked).
"""

from __future__ import annotations

import json
import os
import shutil
import subprocess
import sys

from vf import docprop, model, render
from vf.common import REPO_SRC, VERIF_HOME, Ctx, Failure, Stats, drive, scratch_dir
from vf.props import c08

PROP = "C06"
LEVEL = "exploration"
RULE = (
    "One seeded batch of ~330 (thorough ~2800) calls built from Hypothesis model documents in canonical and lenient spelling, "
    "instances of a planted schema (ambiguous ENUM prefixes, 2-3 unknown fields, several simultaneous errors) and schema documents "
    "with colliding field names: validate x {META,SKILL,GEN_DET,unknown} x profiles x fix/grammar_hint/debug_grammar, write (content, "
    "lenient, schema) to per-call relative paths, eject 4 modes x 5 formats, compile_grammar (schema / content, gbnf / json_schema), "
    "direct emit+warnings, seal, hash, Validator+routing log, reused GBNFCompiler. Executed by 19 (thorough 40+) worker processes "
    "covering PYTHONHASHSEED {0,1,4242,random} x 2 working directories x LANG/LC_ALL {C.UTF-8,C,POSIX} x mode {plain, after a "
    "shuffled history of the same calls, asyncio.gather, four OS threads sharing the tool instances with a 1 us GIL switch interval, cold start with the first eight calls made at once by eight threads}; every call's serialised envelope must equal the reference worker's byte "
    "for byte. evaluations = calls x workers. Non-trivial = the reference envelope contains a list with >=2 entries (errors, "
    "repairs, warnings, unknown fields, routing) — where set iteration order would show; distinct by call."
)
ASSUMPTIONS = [
    "en_US.UTF-8 is not installed in this sandbox: locales are limited to C.UTF-8, C and POSIX",
    "tool bodies contain no await, so tasks of one event loop run one after the other; OS-thread interleavings are sampled (4 threads, 1 us switch interval), the harness does not own that schedule",
    "the file system under the worker's cwd is part of the input: the recorded pass starts from the same (empty) output directory in every worker",
]
GEN_DET = ('===GEN_DET===\nMETA:\n  TYPE::SCHEMA\n  VERSION::"1.0.0"\n---\nPOLICY:\n  VERSION::"1.0"\n  UNKNOWN_FIELDS::REJECT\n---\nFIELDS:\n'
           '  NAME::["ex"∧REQ]\n  STATUS::["ACTIVE"∧REQ∧ENUM[DRAFT,DEPRECATED,DELETED,ACTIVE,ACTIVATING]]\n  COUNT::[5∧OPT∧TYPE[NUMBER]∧RANGE[1,10]]\n'
           '  KIND::["a"∧OPT∧ENUM[alpha,alpine,beta]]\n  ROUTED::["r"∧OPT→§AUDIT_LOG]\n===END===\n')  # (ROUTED goes to a target only a document can declare)
COLLIDE = ['===COLL===\nMETA:\n  TYPE::SCHEMA\n  VERSION::"1.0"\n---\nFIELDS:\n  CONTENT::["x"∧REQ]\n  FIELD::["y"∧OPT]\n  A-B::["z"∧OPT]\n  A_B::["z"∧OPT]\n  Name::["n"∧OPT]\n  NAME::["n"∧OPT]\n===END===\n',
           '===COLL2===\nMETA:\n  TYPE::SCHEMA\n  VERSION::"1.0"\n---\nFIELDS:\n  ROOT::["x"∧REQ∧TYPE[NUMBER]]\n  WS::["y"∧OPT∧RANGE[1,5]]\n  NUMBER::["z"∧OPT]\n===END===\n']


def instance(status, kind, extra, count):
    lines = ["===I===", "META:", "  TYPE::SKILL", '  VERSION::"1.0"', f"  STATUS::{status}", "GEN_DET:", "  NAME::w", f"  STATUS::{status}", f"  KIND::{kind}", f"  COUNT::{count}"]
    lines += [f"  {k}::1" for k in extra]
    return "\n".join(lines + ["===END===", ""])


def build_calls(ctx: Ctx, n_docs: int):
    docs = []
    drive(model.document(depth=3, zones=True, comments=True, max_nodes=4, avoid=frozenset({"cr", "comment_after_empty"})), docs.append, ctx.seed * 7 + 3, n_docs)
    texts = []
    for i, d in enumerate(docs):
        texts.append(render.render_canonical(d))
        texts.append(docprop.render_case(d, {"k": "len", "seed": i, "level": 0.7})[0])
    inst = [instance(s, k, e, c) for s, k, e, c in [("D", "al", ["ZZ", "AA", "MM"], 50), ("DE", "a", ["B1", "A1"], 0), ("ACTIV", "alp", [], "\"x\""), ("A", "b", ["Q"], 5),
                                                     ("ACTIVE", "alpha", ["Z9", "Z1", "Z5", "Z3"], 11), ("nope", "zz", ["X", "Y"], -1)]]
    # a META field holding a holographic pattern: its validation error embeds the value's repr (must be address-free)
    # the custom routing target: one document declares it with a block annotation, the next ones do not
    inst.append(instance("ACTIVE", "alpha", [], 5).replace("===END===", "  ROUTED::x\nARCHIVE[→§AUDIT_LOG]:\n  X::1\n===END==="))
    inst.append(instance("ACTIVE", "alpha", [], 5).replace("===END===", "  ROUTED::x\n===END==="))
    inst.append(instance("DRAFT", "beta", [], 3).replace("===END===", "  ROUTED::y\nOTHER[→§SOMEWHERE]:\n  X::1\n===END==="))
    inst.append('===P===\nMETA:\n  TYPE::T\n  STATUS::[false∧CONST[X]]\n  VERSION::["1.0"∧REQ∧ENUM[A,B]→§SELF]\n===END===\n')
    calls = []
    profiles = ["STRICT", "STANDARD", "LENIENT", "ULTRA"]
    for i, t in enumerate(texts + inst * 2):
        k = i % 12
        sch = ["META", "SKILL", "GEN_DET", "NOPE"][i % 4] if t not in inst else "GEN_DET"
        if k in (0, 1, 2) or t in inst:
            args = {"content": t, "schema": sch, "profile": profiles[i % 4]}
            if i % 3 == 0:
                args["fix"] = True
            if i % 5 == 0:
                args["grammar_hint"] = True
            if i % 7 == 0:
                args["debug_grammar"] = True
            calls.append({"tool": "validate", "args": args})
        if k in (3, 4):
            calls.append({"tool": "write", "args": {"target_path": f"w/f{i}.oct.md", "content": t, "lenient": bool(i % 2), "schema": sch}})
        if k in (5, 6, 7):
            calls.append({"tool": "eject", "args": {"content": t, "schema": "META", "mode": ["canonical", "authoring", "executive", "developer"][i % 4],
                                                   "format": ["octave", "json", "yaml", "markdown", "gbnf"][i % 5]}})
        if k == 8:
            calls.append({"direct": "emit", "text": t})
            calls.append({"direct": "hash", "text": t})
        if k == 9:
            calls.append({"direct": "seal", "text": t})
        if k in (10, 11):
            calls.append({"direct": "validator", "text": t, "schema": sch if sch != "NOPE" else "GEN_DET", "strict": bool(i % 2)})
    for t in inst:
        calls.append({"direct": "validator", "text": t, "schema": "GEN_DET", "strict": True})
        calls.append({"tool": "write", "args": {"target_path": f"w/i{len(calls)}.oct.md", "content": t, "schema": "GEN_DET", "lenient": True}})
    # preview, then a different edit, on files holding the same text (a memo keyed on file text would leak the preview's edit)
    base = "===E===\nMETA:\n  TYPE::T\nOWNER::alice\nNOTE::n\n===END===\n"
    for j in range(2):
        calls.append({"tool": "write", "args": {"target_path": f"w/edit{j}.oct.md", "content": base}})
        calls.append({"tool": "write", "args": {"target_path": f"w/edit{j}.oct.md", "changes": {"OWNER": {"$op": "DELETE"}, f"P{j}": 1}, "corrections_only": True}})
        calls.append({"tool": "write", "args": {"target_path": f"w/edit{j}.oct.md", "changes": {"NOTE": f"edited{j}"}}})
        calls.append({"direct": "emit", "text": base})
    # a file with non-ASCII text edited under its base_hash (every read of the existing file must decode it the same way
    # in every locale), then validated through file_path
    ncanon = '===L===\nMETA:\n  TYPE::T\nOWNER::"zoë → ünï"\nNOTE::n\n===END===\n'
    nh = __import__("hashlib").sha256(ncanon.encode("utf-8")).hexdigest()
    calls.append({"tool": "write", "args": {"target_path": "w/loc.oct.md", "content": ncanon}})
    calls.append({"tool": "write", "args": {"target_path": "w/loc.oct.md", "changes": {"NOTE": "édité"}, "base_hash": nh}})
    calls.append({"tool": "validate", "args": {"file_path": "w/loc.oct.md", "schema": "META"}})
    calls.append({"tool": "write", "args": {"target_path": "w/loc.oct.md"}})
    for j in range(3):
        for c in COLLIDE + [GEN_DET]:
            calls.append({"tool": "compile", "args": {"content": c, "format": "gbnf"}})
            calls.append({"tool": "compile", "args": {"content": c, "format": "json_schema"}})
            calls.append({"direct": "gbnf", "text": c})
            calls.append({"tool": "eject", "args": {"content": c, "schema": "META", "format": "gbnf"}})
        for nm in ("GEN_DET", "META", "SKILL", "DEBATE_TRANSCRIPT"):
            calls.append({"tool": "compile", "args": {"schema": nm, "format": "gbnf"}})
    return calls


def configs(tier: str):
    base = {"hashseed": "0", "cwd": "A", "lang": "C.UTF-8", "mode": "plain"}
    out = [base]
    for hs in ("1", "4242", "random"):
        out.append({**base, "hashseed": hs})
    out.append({**base, "cwd": "B"})
    for lang in ("C", "POSIX"):
        out.append({**base, "lang": lang})
    out.append({**base, "mode": "shuffled", "sseed": 1})
    out.append({**base, "mode": "shuffled", "sseed": 2, "hashseed": "4242"})
    out.append({**base, "mode": "gather"})
    for k in range(4):
        out.append({**base, "mode": "coldthreads", "sseed": 20 + k, "hashseed": ["0", "1", "random", "4242"][k]})
    out.append({**base, "lang": "C", "utf8": "0"})
    out.append({"hashseed": "1", "cwd": "B", "lang": "POSIX", "utf8": "0", "mode": "shuffled", "sseed": 9})
    out.append({**base, "mode": "threads", "sseed": 5})
    out.append({"hashseed": "random", "cwd": "B", "lang": "C", "mode": "threads", "sseed": 6})
    out.append({"hashseed": "random", "cwd": "B", "lang": "POSIX", "mode": "shuffled", "sseed": 3})
    out.append({"hashseed": "1", "cwd": "B", "lang": "C", "mode": "gather"})
    out.append({"hashseed": "random", "cwd": "A", "lang": "C", "mode": "plain"})
    if tier != "quick":
        for hs in ("7", "99", "random", "random"):
            for mode in ("plain", "shuffled", "gather", "threads", "coldthreads", "coldthreads"):
                out.append({"hashseed": hs, "cwd": "AB"[len(out) % 2], "lang": ["C.UTF-8", "C", "POSIX"][len(out) % 3], "mode": mode, "sseed": len(out)})
    return out


def prepare_cwd(root, name):
    d = os.path.join(root, name)
    os.makedirs(os.path.join(d, "specs", "schemas"))
    with open(os.path.join(d, "specs", "schemas", "gen_det.oct.md"), "w", encoding="utf-8") as fh:
        fh.write(GEN_DET)
    # a project-local file named like a schema the package ships: the packaged one is found first, wherever the project lives
    for sub in (("specs", "schemas"), ("src", "octave_mcp", "resources", "specs", "schemas")):
        os.makedirs(os.path.join(d, *sub), exist_ok=True)
        with open(os.path.join(d, *sub, "debate_transcript.oct.md"), "w", encoding="utf-8") as fh:
            fh.write(GEN_DET.replace("GEN_DET", "DEBATE_TRANSCRIPT"))
    if name == "B":
        for f in ("unrelated.txt", "zzz.oct.md", "README.md"):
            with open(os.path.join(d, f), "w") as fh:
                fh.write("noise\n")
        os.makedirs(os.path.join(d, "src"), exist_ok=True)
    return d


def run_workers(calls, cfgs, root, workers):
    calls_path = os.path.join(root, "calls.json")
    with open(calls_path, "w", encoding="utf-8") as fh:
        json.dump(calls, fh, ensure_ascii=False)
    dirs = {"A": prepare_cwd(root, "A"), "B": prepare_cwd(root, "B")}
    procs = []
    outside: list = []
    results = {}
    pending = list(enumerate(cfgs))
    running = []
    while pending or running:
        while pending and len(running) < workers:
            i, cfg = pending.pop(0)
            # every worker gets its own copy of the cwd so that concurrent workers do not share output files
            # ... at an absolute path that sorts BEFORE the installation ("A": under /dev/shm when writable) or AFTER it ("B": a
            # name starting with '~'), so that nothing may depend on how the working directory compares with the package path
            wd = os.path.join(root, f"cwd{i}_{cfg['cwd']}")
            if cfg["cwd"] == "A" and os.access("/dev/shm", os.W_OK):
                wd = f"/dev/shm/0octave-verif-{os.getpid()}-cwd{i}_A"
            elif cfg["cwd"] == "B":
                wd = os.path.join(os.path.dirname(root.rstrip("/")), f"~octave-verif-{os.getpid()}-cwd{i}_B")
            shutil.rmtree(wd, ignore_errors=True)
            outside.append(wd)
            subprocess.run(["cp", "-r", dirs[cfg["cwd"]], wd], check=True)
            env = {k: v for k, v in os.environ.items() if k not in ("LANG", "LC_ALL", "LC_CTYPE", "PYTHONHASHSEED")}
            env.update({"PYTHONHASHSEED": cfg["hashseed"], "LANG": cfg["lang"], "LC_ALL": cfg["lang"], "PYTHONPATH": f"{VERIF_HOME}:{os.path.join(VERIF_HOME, '.deps')}",
                        "PYTHONDONTWRITEBYTECODE": "1"})
            if cfg.get("utf8") == "0":  # the interpreter's UTF-8 mode and locale coercion switched off: the locale's own (ASCII) encoding is the default
                env.update({"PYTHONUTF8": "0", "PYTHONCOERCECLOCALE": "0"})
            out = os.path.join(root, f"out{i}.json")
            p = subprocess.Popen([sys.executable, "-m", "vf.det_worker", calls_path, out, cfg["mode"], str(cfg.get("sseed", 0))], cwd=wd, env=env,
                                 stdout=subprocess.DEVNULL, stderr=subprocess.PIPE, text=True)
            running.append((i, p, out))
        for item in list(running):
            i, p, out = item
            if p.poll() is not None:
                running.remove(item)
                err = p.stderr.read() if p.stderr else ""
                if p.returncode != 0 or not os.path.exists(out):
                    results[i] = ("failed", (err or "")[-800:])
                else:
                    results[i] = ("ok", json.load(open(out, encoding="utf-8")))
        if running:
            import time

            time.sleep(0.05)
    for wd in outside:
        shutil.rmtree(wd, ignore_errors=True)
    return results


def call_kind(c):
    return c.get("tool") or ("direct_" + c["direct"])


def first_diff(a: str, b: str) -> str:
    k = next((i for i, (x, y) in enumerate(zip(a, b)) if x != y), min(len(a), len(b)))
    return f"at byte {k}: reference ...{a[max(0, k - 80):k + 120]!r} vs ...{b[max(0, k - 80):k + 120]!r}"


def has_multi_list(serialised: str) -> bool:
    try:
        obj = json.loads(serialised)
    except Exception:
        return False

    def rec(x):
        if isinstance(x, list):
            return len(x) >= 2 or any(rec(i) for i in x)
        if isinstance(x, dict):
            return any(rec(v) for v in x.values())
        return False

    return rec(obj)


def evaluate(ctx: Ctx, calls, cfgs) -> Stats:
    st = Stats()
    with scratch_dir() as root:
        results = run_workers(calls, cfgs, root, ctx.workers)
    ref = results.get(0)
    if not ref or ref[0] != "ok":
        st.harness_errors.append(f"reference worker failed: {ref}")
        return st
    refs = ref[1]
    nt = [has_multi_list(r) for r in refs]
    for j, c in enumerate(calls):
        if nt[j]:
            st.nontrivial_hashes.add(hash(json.dumps(c, sort_keys=True, ensure_ascii=False)))
            st.labels["nontrivial"] += 1
            if len(st.samples) < 4 and j % 17 == 0:
                st.samples.append({"call": {k: (v if k != "args" else {a: (b if a != "content" else b[:160]) for a, b in v.items()}) for k, v in c.items() if k != "text"} | ({"text": c["text"][:160]} if "text" in c else {})})
        st.labels["calls_" + call_kind(c)] += 1
    for i, cfg in enumerate(cfgs):
        r = results.get(i)
        st.labels["workers"] += 1
        if not r or r[0] != "ok":
            st.harness_errors.append(f"worker {cfg} failed: {r[1] if r else None}")
            continue
        st.evaluations += len(calls)
        if i == 0:
            continue
        dims = [k for k in ("hashseed", "cwd", "lang", "mode", "utf8") if cfg.get(k) != cfgs[0].get(k)]
        for j, (a, b) in enumerate(zip(refs, r[1])):
            if a != b:
                st.fail(f"C06:unlisted:{call_kind(calls[j])}:differs-under:{'+'.join(dims)}", {"call": calls[j], "config": cfg},
                        f"call #{j} ({call_kind(calls[j])}) differs between the reference worker {cfgs[0]} and {cfg}: {first_diff(a, b)}")
    return st


def check_case(case) -> list[Failure]:
    ctx = Ctx(prop="C06", tier="quick", seed=1, workers=4)
    cfgs = [configs("quick")[0], case["config"], {**case["config"], "hashseed": "random"}]
    # the call alone, and the call after the colliding-schema warm-up (for history-dependent differences)
    calls = [case["call"]] + [c for c in build_calls(ctx, 4) if c.get("tool") == "compile"][:6] + [case["call"]]
    st = evaluate(ctx, calls, cfgs)
    return [f for fl in st.failures.values() for f in fl][:1]


def run(ctx: Ctx) -> Stats:
    calls = build_calls(ctx, ctx.pick(100, 1000))
    return evaluate(ctx, calls, configs(ctx.tier))
