"""C04 — every scalar value survives write-then-read with value and type intact.

Generator: exhaustive strings of <= N atoms over a lexer-class alphabet (one representative
per lexer-significant class + multi-character atoms), crossed with value positions and the
always-quoted keys; Hypothesis text/ints/floats/bools/None; the same through
octave_write(changes=/mutations=) followed by a read of the file.
Oracle: identity (strings after NFC) + same Python type + the neighbouring sentinel intact.
"""

from __future__ import annotations

import asyncio
import itertools
import math
import os
import re
import unicodedata

from vf.common import Ctx, Failure, Stats, drive, run_sharded, scratch_dir

PROP = "C04"
LEVEL = "exploration"
RULE = (
    "strings: every sequence of <=3 atoms (quick and thorough; thorough adds every string of exactly 4 atoms at the assignment and list-item sites, 31.5M round trips, and an index-sampled slice of length 4 at the other sites) over "
    "a 63-atom alphabet with one representative per lexer class, placed at 13 (position,key) sites "
    "(assignment with and without YAML frontmatter/META/nested META/list of 1,2,3 items/inline-map value x keys K,PATTERN,REGEX); plus Hypothesis "
    "text<=60, near-bare strings (1-2 edits away from annotation/expression/variable/version shapes), ints, finite floats, bools, None; plus octave_write(changes/mutations) then read of the file. "
    "Oracle: parse(emit(doc)) returns the same value with the same type (str after NFC) and the sentinel neighbour "
    "is intact. Non-trivial = the string is not a plain identifier (contains a non-alphanumeric or reserved atom) "
    "or the scalar is not a string; distinct by (value, site), enumerated without repetition."
)
ASSUMPTIONS = [
    "strings are compared after NFC as the property states",
    "float sign of zero and int/float type are part of the oracle; NaN/inf are outside the domain (finite floats)",
    "keys used are the plain identifier K and the always-quoted keys PATTERN and REGEX",
]

ATOMS = [
    "a", "Z", "1", "0", "_", ".", "-", "/", " ", "\t", "\n", "\r", '"', "\\", ":", "[", "]", ",", "<", ">", "{", "}",
    "$", "#", "§", "→", "⊕", "⧺", "⇌", "∧", "∨", "@", "+", "~", "|", "&", "%", "=", "`", ";", "(", ")", "\x00",
    "́", "é", "😀", "n", "t", "e",
    "true", "false", "null", "vs", "//", "::", "->", "<->", "===",
    "\x0c", "\x85", "\u2028",
    "u0041", "x41",  # after a backslash: text that looks like a \uXXXX / \xXX escape sequence
]
SITES = [
    ("fm_assign", "K"), ("assign", "K"), ("assign", "PATTERN"), ("assign", "REGEX"), ("meta", "K"), ("metanested", "K"),
    ("list1", ""), ("list2", ""), ("list3", ""), ("pair", "K"), ("pair", "PATTERN"), ("pair", "REGEX"), ("pair1", "K"),
]
SENT = "zzsentinel"


def _imports():
    from octave_mcp import emit, parse
    from octave_mcp.core.ast_nodes import Assignment, Document, InlineMap, ListValue

    return emit, parse, Assignment, Document, InlineMap, ListValue


def build(site, key, v):
    emit, parse, Assignment, Document, InlineMap, ListValue = _imports()
    doc = Document(name="D")
    if site == "fm_assign":  # the same document carrying YAML frontmatter
        doc.raw_frontmatter = "name: x\ndescription: y (z)"
        doc.sections = [Assignment(key=key, value=v), Assignment(key="Z", value=SENT)]
    elif site == "assign":
        doc.sections = [Assignment(key=key, value=v), Assignment(key="Z", value=SENT)]
    elif site == "meta":
        doc.meta = {key: v, "Z": SENT}
        doc.sections = [Assignment(key="Z", value=SENT)]
    elif site == "metanested":
        doc.meta = {"N": {key: v, "Z": SENT}, "Z": SENT}
        doc.sections = [Assignment(key="Z", value=SENT)]
    elif site == "list1":
        doc.sections = [Assignment(key="L", value=ListValue(items=[v])), Assignment(key="Z", value=SENT)]
    elif site == "list2":
        doc.sections = [Assignment(key="L", value=ListValue(items=[v, SENT])), Assignment(key="Z", value=SENT)]
    elif site == "list3":
        doc.sections = [Assignment(key="L", value=ListValue(items=[SENT, v, SENT])), Assignment(key="Z", value=SENT)]
    elif site == "pair1":  # the pair is the only item of its list
        doc.sections = [Assignment(key="L", value=ListValue(items=[InlineMap(pairs={key: v})])), Assignment(key="Z", value=SENT)]
    elif site == "pair":
        doc.sections = [
            Assignment(key="L", value=ListValue(items=[InlineMap(pairs={key: v}), SENT])),
            Assignment(key="Z", value=SENT),
        ]
    else:
        raise ValueError(site)
    return doc


class Mismatch(Exception):
    pass


def extract(site, key, doc2):
    """Return (value read back, sentinel_ok)."""
    _, _, Assignment, _, InlineMap, ListValue = _imports()

    def last_ok(sections):
        return (
            len(sections) == 2
            and isinstance(sections[1], Assignment)
            and sections[1].key == "Z"
            and sections[1].value == SENT
        )

    s = doc2.sections
    if site == "fm_assign":
        if doc2.raw_frontmatter != "name: x\ndescription: y (z)":
            raise Mismatch(f"frontmatter read back as {doc2.raw_frontmatter!r}")
        site = "assign"
    if site == "assign":
        if not (s and isinstance(s[0], Assignment) and s[0].key == key):
            raise Mismatch(f"first node is not assignment {key}: {s[:1]!r}")
        return s[0].value, last_ok(s)
    if site == "meta":
        if list(doc2.meta.keys()) != [key, "Z"]:
            raise Mismatch(f"META keys {list(doc2.meta.keys())}")
        return doc2.meta[key], doc2.meta["Z"] == SENT and len(s) == 1 and s[0].value == SENT
    if site == "metanested":
        if list(doc2.meta.keys()) != ["N", "Z"] or not isinstance(doc2.meta["N"], dict) \
                or list(doc2.meta["N"].keys()) != [key, "Z"]:
            raise Mismatch(f"META shape {doc2.meta!r}")
        return doc2.meta["N"][key], doc2.meta["N"]["Z"] == SENT and doc2.meta["Z"] == SENT and len(s) == 1
    if not (s and isinstance(s[0], Assignment) and s[0].key == "L"):
        raise Mismatch(f"first node is not assignment L: {s[:1]!r}")
    lv = s[0].value
    if not isinstance(lv, ListValue):
        raise Mismatch(f"list read back as {type(lv).__name__}: {lv!r}"[:300])
    n = {"list1": 1, "list2": 2, "list3": 3, "pair": 2, "pair1": 1}[site]
    if len(lv.items) != n:
        raise Mismatch(f"list has {len(lv.items)} items, expected {n}: {lv.items!r}"[:300])
    if site == "list1":
        return lv.items[0], last_ok(s)
    if site == "list2":
        return lv.items[0], lv.items[1] == SENT and last_ok(s)
    if site == "list3":
        return lv.items[1], lv.items[0] == SENT and lv.items[2] == SENT and last_ok(s)
    im = lv.items[0]
    if not isinstance(im, InlineMap) or list(im.pairs.keys()) != [key]:
        raise Mismatch(f"pair read back as {im!r}"[:300])
    return im.pairs[key], (site == "pair1" or lv.items[1] == SENT) and last_ok(s)


def same(v, got) -> bool:
    if type(v) is not type(got):
        return False
    if isinstance(v, str):
        return unicodedata.normalize("NFC", v) == got
    if isinstance(v, float):
        return v == got and math.copysign(1.0, v) == math.copysign(1.0, got)
    return v == got


# ---------------------------------------------------------------- signatures
RESERVED = ("true", "false", "null", "vs")
_OPS = "\u2192\u2295\u29fa\u21cc\u2227\u2228@"
_BARE_TOKEN = re.compile(r"^[A-Za-z_][A-Za-z0-9_.\-]*(?:[" + _OPS + r"][A-Za-z_][A-Za-z0-9_.\-]*)*\Z")
_RESERVED_RELEXED = re.compile(r"(?:^|[" + _OPS + r"])(?:true|false|null|vs)\b")


def _escape(s: str) -> str:
    return s.replace("\\", "\\\\").replace('"', '\\"').replace("\n", "\\n").replace("\t", "\\t")


def _unescape_chain(s: str) -> str:
    # the reader's historical behaviour: four successive global replacements
    return s.replace('\\"', '"').replace("\\\\", "\\").replace("\\n", "\n").replace("\\t", "\t")


_ESC = re.compile(r'\\(["\\nt])')


def _unescape_single(s: str) -> str:
    return _ESC.sub(lambda m: {"n": "\n", "t": "\t"}.get(m.group(1), m.group(1)), s)


def _universal_newlines(s: str) -> str:
    # in the written file a value's LF is always the escape \\n, so every raw CR stands alone and becomes LF
    return s.replace("\r", "\n")


def classify(site, key, v, obs: str, got=None, have_got=False) -> str:
    """Signature of a failure: a predicate over the input AND the exact observed shape.

    Each listed signature predicts the precise wrong value (or is restricted to a narrow input class),
    so a different violation on the same input class is still reported as unlisted.
    """
    via_file = site.startswith("write_")
    if isinstance(v, str):
        nv = unicodedata.normalize("NFC", v)
        if have_got and isinstance(got, str):
            exp = _universal_newlines(nv) if via_file else nv
            # (a) escape order: reader applies \" \\ \n \t replacements one after the other
            if "\\" in nv and got == _unescape_chain(_escape(exp)) != exp:
                return "C04:escape-order"
            # (b) NFC applied to the escaped text: LF/TAB followed by a combining mark composes with 'n'/'t'
            nfc_esc = unicodedata.normalize("NFC", _escape(nv))
            if nfc_esc != _escape(nv):
                for un in (_unescape_single, _unescape_chain):
                    g = un(nfc_esc)
                    if got == (_universal_newlines(g) if via_file else g):
                        return "C04:nfc-after-escape"
            # (c) raw CR written to a file and read back through universal-newline translation
            if via_file and "\r" in nv and got == _universal_newlines(nv):
                return "C04:cr-through-file"
            # (c+b) both at once: the CR has become LF through the file, and on the next emission that LF's escape \n
            # composes with a following combining mark (exact prediction of the two known classes applied in turn)
            if via_file and "\r" in nv:
                x = _universal_newlines(nv)
                nfc2 = unicodedata.normalize("NFC", _escape(x))
                if nfc2 != _escape(x) and got in [un(nfc2) for un in (_unescape_single, _unescape_chain)]:
                    return "C04:cr-through-file"
        # (d) a reserved word at the start of a bare token or right after an operator is re-lexed as a literal
        if _BARE_TOKEN.match(nv) and _RESERVED_RELEXED.search(nv):
            return "C04:reserved-word-in-bare-token"
    return "C04:unlisted:" + site + ":" + obs.split(":")[0][:40]


def check_one(site, key, v):
    """Return None if OK else (sig, detail)."""
    emit, parse, *_ = _imports()
    from octave_mcp.core.lexer import LexerError
    from octave_mcp.core.parser import ParserError

    doc = build(site, key, v)
    try:
        text = emit(doc)
    except Exception as e:  # emitting a valid scalar must not raise
        return classify(site, key, v, "emit-raised:" + type(e).__name__), f"emit raised {e!r}"
    try:
        doc2 = parse(text)
    except (LexerError, ParserError) as e:
        return (classify(site, key, v, "reread-rejected:" + type(e).__name__),
                f"value {v!r} at {site}/{key}: emitted text rejected: {e} | text={text!r}"[:900])
    except Exception as e:
        return (classify(site, key, v, "reread-crashed:" + type(e).__name__),
                f"value {v!r} at {site}/{key}: reader crashed {e!r} | text={text!r}"[:900])
    try:
        got, sent_ok = extract(site, key, doc2)
    except Mismatch as m:
        return classify(site, key, v, "shape:" + str(m)[:30]), f"value {v!r} at {site}/{key}: {m} | text={text!r}"[:900]
    if not same(v, got):
        return (classify(site, key, v, "value:" + type(got).__name__, got, True),
                f"value {v!r} at {site}/{key} read back as {got!r} ({type(got).__name__}) | text={text!r}"[:900])
    if not sent_ok:
        return classify(site, key, v, "neighbour"), f"value {v!r} at {site}/{key}: neighbour damaged | text={text!r}"[:900]
    return None


def is_nontrivial_str(s: str) -> bool:
    return not (s.isascii() and s.isalnum() and s not in RESERVED)


# ---------------------------------------------------------------- exhaustive strings
def _strings(max_len):
    yield ""
    for n in range(1, max_len + 1):
        for tup in itertools.product(ATOMS, repeat=n):
            yield "".join(tup)


def shard_strings(ctx: Ctx, shard: int, nshards: int, max_len: int) -> Stats:
    st = Stats()
    seen_nt = 0
    for i, s in enumerate(_strings(max_len)):
        if i % nshards != shard:
            continue
        nt = is_nontrivial_str(s)
        for site, key in SITES:
            r = check_one(site, key, s)
            st.evaluations += 1
            if nt:
                st.nontrivial_exact += 1
            if r:
                st.fail(r[0], {"kind": "scalar", "site": site, "key": key, "value": s}, r[1])
        if nt:
            seen_nt += 1
            if seen_nt % 4001 == 1 and len(st.samples) < 3:
                st.samples.append({"value": s, "sites": "all 13"})

    return st


def shard_len4(ctx: Ctx, shard: int, nshards: int) -> Stats:
    """Thorough: EVERY string of exactly 4 atoms at two sites (plain assignment value and list item): 2 x 63^4 round trips."""
    st = Stats()
    sites = [("assign", "K"), ("list2", "")]
    for i, tup in enumerate(itertools.product(ATOMS, repeat=4)):
        if i % nshards != shard:
            continue
        s = "".join(tup)
        nt = is_nontrivial_str(s)
        for site, key in sites:
            r = check_one(site, key, s)
            st.evaluations += 1
            if nt:
                st.nontrivial_exact += 1
            if r:
                st.fail(r[0], {"kind": "scalar", "site": site, "key": key, "value": s}, r[1])
    st.labels["len4_exhaustive_shards"] += 1
    return st


def shard_sampled4(ctx: Ctx, shard: int, nshards: int, total: int) -> Stats:
    """Thorough: index-sampled strings of exactly 4 atoms (NOT exhaustive)."""
    import random

    st = Stats()
    rnd = random.Random(ctx.shard_seed(shard, 4))
    n = len(ATOMS)
    for _ in range(total // nshards):
        idx = rnd.randrange(n**4)
        s = "".join(ATOMS[(idx // n**k) % n] for k in range(4))
        site, key = SITES[rnd.randrange(len(SITES))]
        r = check_one(site, key, s)
        st.case({"value": s, "site": site, "key": key}, nontrivial=is_nontrivial_str(s), labels=["len4_sampled"])
        if r:
            st.fail(r[0], {"kind": "scalar", "site": site, "key": key, "value": s}, r[1])
    return st


# ---------------------------------------------------------------- hypothesis scalars
def scalar_strategy():
    from hypothesis import strategies as st

    text = st.text(alphabet=st.characters(blacklist_categories=("Cs",)), max_size=60)
    hostile = st.lists(st.sampled_from(ATOMS + ["A", "b_c", "42", "-1e5", "007", "1.0.0", "$VAR", "§X", "NAME<q>",
                                                "two words", "===END===", "---", "// c", "60%", "x.y/z-w"]),
                       max_size=8).map("".join)
    ints = st.one_of(st.integers(-10**6, 10**6), st.integers(-(2**70), 2**70), st.sampled_from([0, -1, 2**63, -(2**63) - 1]))
    floats = st.one_of(
        st.floats(allow_nan=False, allow_infinity=False, width=64),
        st.sampled_from([0.0, -0.0, 1e308, -1e308, 5e-324, 1.5, -2.25, 1e16, 1e-7, 123456789.123456789, 1e22, 1e21]),
    )
    from vf.model import nearbare

    val = st.one_of(text, hostile, nearbare(), nearbare(), ints, floats, st.booleans(), st.none())
    return st.tuples(st.sampled_from(SITES), val)


def enc(v):
    """JSON-able encoding of a scalar (floats keep exact repr)."""
    if isinstance(v, float):
        return {"float": repr(v)}
    if isinstance(v, int) and not isinstance(v, bool) and abs(v) > 2**53:
        return {"int": str(v)}
    return v


def dec(v):
    if isinstance(v, dict) and "float" in v:
        return float(v["float"])
    if isinstance(v, dict) and "int" in v:
        return int(v["int"])
    return v


def shard_hyp(ctx: Ctx, shard: int, nshards: int, per_shard: int) -> Stats:
    st = Stats()

    def one(case):
        (site, key), v = case
        r = check_one(site, key, v)
        kind = type(v).__name__
        nt = (not isinstance(v, str)) or is_nontrivial_str(v)
        st.case({"site": site, "key": key, "value": enc(v)}, nontrivial=nt, labels=["hyp_" + kind])
        if r:
            st.fail(r[0], {"kind": "scalar", "site": site, "key": key, "value": enc(v)}, r[1])

    drive(scalar_strategy(), one, ctx.shard_seed(shard, 1), per_shard, chunk=4000)
    return st


# ---------------------------------------------------------------- through octave_write
def write_roundtrip(v, mode: str, root: str):
    """octave_write(changes={K: v}) / mutations on an existing file, then read the file back."""
    from octave_mcp import parse
    from octave_mcp.core.ast_nodes import Assignment
    from octave_mcp.mcp.write import WriteTool

    path = os.path.join(root, "t.oct.md")
    with open(path, "w", encoding="utf-8") as fh:
        fh.write("===D===\nMETA:\n  TYPE::T\nA::1\nZ::zzsentinel\n===END===\n")
    tool = WriteTool()
    if mode == "changes":
        res = asyncio.run(tool.execute(target_path=path, changes={"K": v}))
    elif mode == "changes_existing":
        res = asyncio.run(tool.execute(target_path=path, changes={"A": v}))
    elif mode == "changes_meta":
        res = asyncio.run(tool.execute(target_path=path, changes={"META.K": v}))
    else:
        res = asyncio.run(tool.execute(target_path=path, mutations={"K": v}))
    if res.get("status") != "success":
        return "tool-error", f"octave_write({mode}) refused scalar {v!r}: {res.get('errors')}"
    # (a) exact bytes of the file, (b) the product's own reader: octave_validate(file_path=...)
    with open(path, "rb") as fh:
        raw = fh.read().decode("utf-8")
    from octave_mcp.mcp.validate import ValidateTool

    vres = asyncio.run(ValidateTool().execute(file_path=path, schema="META"))
    views = [("file bytes", raw)]
    if vres.get("status") == "success" and isinstance(vres.get("canonical"), str):
        views.append(("octave_validate(file_path)", vres["canonical"]))
    else:
        return "reread-rejected", f"octave_validate(file_path) refuses the file written for {v!r}: {vres.get('errors')} | {raw!r}"
    for view, text in views:
        try:
            doc = parse(text)
        except Exception as e:
            return "reread-rejected", f"{view} for {v!r} is unreadable: {e} | {text!r}"
        if mode in ("changes_meta", "mutations"):
            if "K" not in doc.meta:
                return "missing", f"{view}: META.K missing after write of {v!r}: {text!r}"
            got = doc.meta["K"]
        else:
            k = "A" if mode == "changes_existing" else "K"
            m = [s for s in doc.sections if isinstance(s, Assignment) and s.key == k]
            if len(m) != 1:
                return "missing", f"{view}: key {k} occurs {len(m)} times after write of {v!r}: {text!r}"
            got = m[0].value
        z = [s for s in doc.sections if isinstance(s, Assignment) and s.key == "Z"]
        if not (doc.meta.get("TYPE") == "T" and len(z) == 1 and z[0].value == SENT):
            return "neighbour", f"{view}: neighbour damaged after write of {v!r}: {text!r}"
        if not same(v, got):
            via = "file" if view.startswith("octave_validate") else "bytes"
            return "value:" + type(got).__name__, f"octave_write({mode}) {v!r} read back via {view} as {got!r}: {text!r}", got, via
    return None


def check_write(v, mode, root):
    r = write_roundtrip(v, mode, root)
    if r is None:
        return None
    have = len(r) > 2
    site = ("write_" if (have and r[3] == "file") else "wbytes_") + mode
    return classify(site, "K", v, r[0], r[2] if have else None, have), r[1][:900]


def shard_write(ctx: Ctx, shard: int, nshards: int, per_shard: int) -> Stats:
    from hypothesis import strategies as hs

    st = Stats()
    with scratch_dir() as root:
        strat = hs.tuples(hs.sampled_from(["changes", "changes_existing", "changes_meta", "mutations"]),
                          scalar_strategy().map(lambda c: c[1]))

        def one(case):
            mode, v = case
            r = check_write(v, mode, root)
            nt = (not isinstance(v, str)) or is_nontrivial_str(v)
            st.case({"write": mode, "value": enc(v)}, nontrivial=nt, labels=["write_" + mode])
            if r:
                st.fail(r[0], {"kind": "write", "mode": mode, "value": enc(v)}, r[1])

        drive(strat, one, ctx.shard_seed(shard, 2), per_shard, chunk=4000)
        # text that looks like another kind of value to a tool's argument handling: JSON containers and scalars, OCTAVE
        # brackets, operation objects, chained operators — placed through every write mode (fixed list, sharded)
        k = 0
        for v in LOOKALIKE_TEXTS:
            for mode in ("changes", "changes_existing", "changes_meta", "mutations"):
                k += 1
                if k % nshards == shard:
                    one((mode, v))
    return st


LOOKALIKE_TEXTS = ["[]", "[1, 2, 3]", '["a"]', "{}", '{"retries": 3}', '{"$op": "DELETE"}', "null", "true", "42", "4.0", '"quoted"', "[a,b]", "[k::v]", "{a: 1}",
                   " [] ", "[1,\n2]", "speed⇌cost⇌quality", "a⇌b⇌c⇌d", "a→b→c", "x vs y vs z", "NaN", "Infinity", "-0", "0x10", "1e3", "1_000", "$op", "DELETE",
                   "META.X", "§1", "===END===", "---", "```", "K::v"]


# ---------------------------------------------------------------- module interface
def check_case(case) -> list[Failure]:
    if case.get("kind") == "write":
        with scratch_dir() as root:
            r = check_write(dec(case["value"]), case["mode"], root)
    else:
        r = check_one(case["site"], case["key"], dec(case["value"]))
    return [Failure(r[0], case, r[1])] if r else []


def shrink_candidates(case):
    v = dec(case["value"])
    if isinstance(v, str):
        for i in range(len(v)):
            yield {**case, "value": v[:i] + v[i + 1:]}
    elif isinstance(v, int) and not isinstance(v, bool) and v:
        yield {**case, "value": enc(v // 2)}


def run(ctx: Ctx) -> Stats:
    total = Stats()
    total.merge(run_sharded(shard_strings, ctx, nshards=ctx.workers * 4, extra=(3,)))
    total.exhaustive = True
    total.notes.append("strings of <=3 atoms x 13 sites enumerated completely (exhaustive flag refers to this part)")
    total.merge(run_sharded(shard_hyp, ctx, extra=(ctx.pick(1500, 20000),)))
    total.merge(run_sharded(shard_write, ctx, extra=(ctx.pick(150, 2500),)))
    if not ctx.quick:
        total.merge(run_sharded(shard_len4, ctx, nshards=ctx.workers * 8))
        total.notes.append("strings of exactly 4 atoms enumerated completely at the sites assign/K and list item (2 x 63^4); at the other ten sites "
                           "length-4 strings are index-sampled with the seed (3M), not exhaustive")
        total.merge(run_sharded(shard_sampled4, ctx, extra=(3_000_000,)))
    return total
