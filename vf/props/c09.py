"""C09 — validity is invariant under respelling; validating never alters content.

Generators: (1) generic model documents validated under the packaged schemas META and SKILL; (2) generated schema
files (C08's chain pools, three unknown-field policies) with instances that are valid or invalid in one of several ways.
Every document is rendered canonically, in seeded lenient spellings, as its canonical text and as the canonical text of
that; profiles STRICT/STANDARD/LENIENT/ULTRA.
Oracle (metamorphic): the triple (validation_status, {(code, field)} of validation errors, {(code, field)} of warnings)
is the same for every spelling, through octave_validate (one long-lived tool instance, as the server holds), through
Validator on the parsed documents and through octave_write(schema=..., corrections_only). With fix off the returned
canonical text equals emit(parse_with_warnings(x)[0]) and the same call repeated (also after an intervening fix=true
call on the same text) returns the same envelope.
"""

from __future__ import annotations

import copy
import json
import os
import re

from vf import docprop, model, render, tools
from vf.common import Ctx, Failure, Stats, drive, run_sharded, scratch_dir
from vf.props import c08

PROP = "C09"
LEVEL = "exploration"
RULE = (
    "(1) Hypothesis model documents (incl. empty/whitespace frontmatter) under schemas META and SKILL; (2) Hypothesis schemas "
    "(3 policies x 1-4 fields from 18 chains) planted in <cwd>/specs/schemas x instances built from 33 source values (valid, "
    "missing, unknown, mistyped, prefix/ambiguous enum). Each document in up to 6 texts: conservative canonical spelling, the same with one META line repeated, 2 seeded "
    "lenient spellings, the emitted canonical text (and its own canonical text); profiles STRICT/STANDARD/LENIENT/ULTRA. "
    "Oracle: equal (status, error set, warning set) across texts per profile via octave_validate (persistent instance), "
    "Validator, octave_write(corrections_only) and `octave validate --stdin --schema` (exit code, status line, error codes); fix=false canonical == emit(parse_with_warnings(x)); repeat call and "
    "call-after-fix=true return the same envelope. Non-trivial = the schema has a TYPE/CONST/RANGE/ENUM member (or is "
    "META/SKILL with a META block) and a respelling changes quoting, an operator or a number spelling; distinct by text."
)
ASSUMPTIONS = [
    "routing_log timestamps are masked before envelopes are compared",
    "parse receipts (repairs/repair_log) legitimately differ between spellings and are not part of the triple",
    "known C01/C02/C04 classes (CR in strings, comments after empty containers) are excluded by construction",
]
PROFILES = ["STRICT", "STANDARD", "LENIENT", "ULTRA"]
AVOID = frozenset({"comment_after_empty", "cr", "zone_one_blank"})
_TOOL = {}


def vtool():
    from octave_mcp.mcp.validate import ValidateTool

    if "v" not in _TOOL:
        _TOOL["v"] = ValidateTool()
    return _TOOL["v"]


def validate_p(**kw):
    return tools._run(vtool().execute(**kw))


def mask(env):
    s = json.dumps(env, sort_keys=True, ensure_ascii=False, default=repr)
    return re.sub(r'"timestamp": "[^"]*"', '"timestamp": "T"', s)


def triple(r):
    errs = frozenset((e.get("code"), e.get("field")) for e in (r.get("validation_errors") or []))
    warns = frozenset((e.get("code"), e.get("field")) for e in (r.get("warnings") or []))
    return (r.get("validation_status"), errs, warns)


def fmt(t):
    return f"{t[0]} errors={sorted(t[1], key=repr)} warnings={sorted(t[2], key=repr)}"


_PAD = {"n": 0}
_REUSED_V: dict = {}


def texts_of(doc, seeds):
    """[(label, text, info)] : canonical spelling, lenient spellings, emitted canonical, canonical of canonical."""
    from octave_mcp import emit, parse

    out = []
    ct, ci = docprop.render_case(doc, {"k": "canon"})
    out.append(("canon-spelling", ct, ci))
    for j, s in enumerate(seeds):
        lt, li = docprop.render_case(doc, {"k": "len", "seed": s, "level": [0.4, 0.8][j % 2]})
        out.append((f"lenient-{s}", lt, li))
    # the document without its envelope lines and with a blank after every `::` (both accepted spellings: the reader infers the
    # envelope; only used for documents without literal zones or multi-line strings, where a line is what it looks like)
    lines = ct.split("\n")
    if doc.get("frontmatter") is None and doc.get("sentinel") is None and "```" not in ct and '"""' not in ct and lines[0].startswith("===") and lines[-2:] == ["===END===", ""]:
        body = [re.sub(r"^(\s*[A-Za-z_][A-Za-z0-9_.\-]*)::(?=\S)", r"\1:: ", ln) for ln in lines[1:-2]]
        if any(":: " in ln for ln in body):
            out.append(("no-envelope-blank-after-assign", "\n".join(body) + "\n", ci))
    # a repeated META key: the reader keeps one value, so the canonical text carries the key once
    if "META:" in lines:
        mi = lines.index("META:")
        simple = [j for j in range(mi + 1, len(lines)) if lines[j].startswith("  ") and not lines[j].startswith("   ") and "::" in lines[j]
                  and not lines[j].rstrip().endswith("[") and not lines[j].rstrip().endswith("::")]
        simple = [j for j in simple if all(not lines[x].startswith(("  ", "```")) or x in simple for x in range(mi + 1, j + 1))]
        if simple:
            j = simple[-1]
            out.append(("meta-key-repeated", "\n".join(lines[:j + 1] + [lines[j]] + lines[j + 1:]), ci))
    try:
        c1 = emit(parse(ct))
        _PAD["n"] += 1
        if _PAD["n"] % 60 == 0:
            # trailing blanks are a documented freedom: here 1.2 million of them behind the envelope line (a respelling
            # larger than any buffer a reader might be tempted to cap its input at)
            head, _, rest = c1.partition("===\n")
            if rest:
                out.append(("padded-1.2M-blanks", head + "===" + " " * 1_200_000 + "\n" + rest, ci))
        out.append(("canonical-text", c1, ci))
        c2 = emit(parse(c1))
        if c2 != c1:
            out.append(("canonical-of-canonical", c2, ci))
    except Exception:
        pass
    return out


def relation(schema: str, texts, with_write: bool, root: str | None, section_schemas=None):
    from octave_mcp import emit
    from octave_mcp.core.lexer import LexerError
    from octave_mcp.core.parser import ParserError, parse_with_warnings
    from octave_mcp.core.validator import Validator

    fails = []
    base = {}
    for label, text, info in texts:
        try:
            d, _ = parse_with_warnings(text)
            plain = emit(d)
        except (LexerError, ParserError):
            continue  # a refused spelling is C02/C03's finding; no verdict to compare
        for prof in PROFILES:
            r = validate_p(content=text, schema=schema, profile=prof)
            if r.get("status") != "success":
                fails.append(("C09:unlisted:validate-refused", f"octave_validate refuses a text the reader accepts ({label}, {prof}): {r.get('errors')}"))
                continue
            t = triple(r)
            if prof not in base:
                base[prof] = (label, t, text)
            elif t != base[prof][1]:
                fails.append((f"C09:unlisted:verdict-differs-across-spellings:{prof}",
                              f"schema={schema} profile={prof}: [{base[prof][0]}] {fmt(base[prof][1])}  !=  [{label}] {fmt(t)} | "
                              f"text1={base[prof][2]!r} | text2={text!r}"))
            if prof == "STANDARD" and root and "\r" not in text:
                # the file_path route reads the same bytes from disk: same verdict, same canonical text
                fpath = os.path.join(root, "route.oct.md")
                with open(fpath, "w", encoding="utf-8", newline="") as fh:
                    fh.write(text)
                rf = validate_p(file_path=fpath, schema=schema, profile=prof)
                if rf.get("status") == "success" and (triple(rf) != t or rf.get("canonical") != r.get("canonical")):
                    fails.append(("C09:unlisted:file-route-differs-from-content-route",
                                  f"octave_validate(file_path=...) answers {fmt(triple(rf))}, the same text passed as content {fmt(t)} ({label}; {len(text)} characters) | "
                                  f"text={text[:600]!r}"))
                elif rf.get("status") != "success":
                    fails.append(("C09:unlisted:file-route-refused", f"octave_validate(file_path=...) refuses a text the content route accepts ({label}): {rf.get('errors')}"))
            if prof == "STANDARD":
                if r.get("canonical") != plain:
                    fails.append(("C09:unlisted:validate-altered-content",
                                  f"fix=false canonical differs from plain canonicalisation ({label}): {r.get('canonical')!r} vs {plain!r}"))
                r2 = validate_p(content=text, schema=schema, profile=prof)
                if mask(r2) != mask(r):
                    fails.append(("C09:unlisted:second-call-differs", f"the same call twice gives different envelopes ({label}) | text={text!r}"))
                validate_p(content=text, schema=schema, profile=prof, fix=True)
                r3 = validate_p(content=text, schema=schema, profile=prof)
                if mask(r3) != mask(r):
                    fails.append(("C09:unlisted:call-after-fix-differs",
                                  f"fix=false after an intervening fix=true call on the same text differs ({label}): {fmt(triple(r3))} "
                                  f"canonical={r3.get('canonical')!r} vs {fmt(t)} canonical={r.get('canonical')!r}"))
        # `octave validate --stdin --schema S` (packaged schemas only: the CLI resolves built-in names)
        if schema in ("META", "SKILL"):
            code, out, err, exc = tools.cli(["validate", "--stdin", "--schema", schema], input=text)
            if exc is not None:
                fails.append(("C09:unlisted:cli-validate-raised", f"`octave validate` raised {exc!r} ({label}) | text={text!r}"))
            else:
                m = re.search(r"(?m)^validation_status: (\w+)$", out or "")
                codes = frozenset(re.findall(r"(?m)^  (E\w+|W\w+): ", err or ""))
                tc = (code, m.group(1) if m else None, codes)
                if "cli" not in base:
                    base["cli"] = (label, tc, text)
                elif tc != base["cli"][1]:
                    fails.append(("C09:unlisted:cli-verdict-differs-across-spellings",
                                  f"`octave validate --schema {schema}`: [{base['cli'][0]}] {base['cli'][1]} != [{label}] {tc} | stderr={err[:300]!r} | "
                                  f"text1={base['cli'][2]!r} | text2={text!r}"))
                if m and not (out or "").startswith(plain):
                    fails.append(("C09:unlisted:cli-validate-altered-content",
                                  f"`octave validate` (no --fix) printed a text that is not the plain canonicalisation ({label}): {out[:400]!r} vs {plain[:400]!r}"))
        # Validator directly on the parsed document
        if section_schemas is not None:
            errs = Validator(schema=None).validate(d, strict=False, section_schemas=section_schemas)
            tv = frozenset((e.code, e.field_path) for e in errs)
            # one Validator object that has served every earlier document of this shard answers like a fresh one
            if "v" not in _REUSED_V:
                _REUSED_V["v"] = Validator(schema=None)
            tr = frozenset((e.code, e.field_path) for e in _REUSED_V["v"].validate(d, strict=False, section_schemas=section_schemas))
            if tr != tv:
                fails.append(("C09:unlisted:reused-validator-differs-from-fresh",
                              f"a Validator that validated other documents before answers {sorted(tr, key=repr)}, a fresh one {sorted(tv, key=repr)} ({label}) | text={text!r}"))
            if "validator" not in base:
                base["validator"] = (label, tv, text)
            elif tv != base["validator"][1]:
                fails.append(("C09:unlisted:validator-differs-across-spellings",
                              f"Validator: [{base['validator'][0]}] {sorted(base['validator'][1], key=repr)} != [{label}] {sorted(tv, key=repr)} | "
                              f"text1={base['validator'][2]!r} | text2={text!r}"))
        if with_write and root:
            path = os.path.join(root, "v.oct.md")
            w = tools.write(target_path=path, content=text, schema=schema, lenient=True, corrections_only=True)
            if w.get("status") == "success":
                tw = (w.get("validation_status"), frozenset((e.get("code"), e.get("field")) for e in (w.get("validation_errors") or [])))
                if "write" not in base:
                    base["write"] = (label, tw, text)
                elif tw != base["write"][1]:
                    fails.append(("C09:unlisted:write-verdict-differs-across-spellings",
                                  f"octave_write(corrections_only): [{base['write'][0]}] {base['write'][1]} != [{label}] {tw} | text2={text!r}"))
                if os.path.exists(path):
                    fails.append(("C09:unlisted:corrections-only-wrote", "corrections_only created the file"))
    seen = {}
    for s, d_ in fails:
        seen.setdefault(s, d_)
    return [(s, d_[:1800]) for s, d_ in seen.items()]


def respelling_changes_value_form(texts) -> bool:
    for label, _, info in texts:
        used = info.get("used", {})
        if any(k.startswith("bare_") or k in ("quoted_plain_word", "triple_quotes", "alias", "number_spelling") for k in used):
            return True
    return False


# ---------------------------------------------------------------------------------------------- (1) packaged schemas
def shard_builtin(ctx: Ctx, sh: int, nshards: int, n: int) -> Stats:
    from hypothesis import strategies as hs

    st = Stats()
    fm = hs.one_of(model.FRONTMATTER, hs.sampled_from(["", " ", "\n", "name: x\ndescription: y\nallowed-tools: [a]", "- just\n- a list", "plain text",
                                                       "name: x\ndescription: y\nallowed-tools: nope"]))
    meta_fix = hs.lists(hs.sampled_from([["TYPE", "SKILL"], ["TYPE", "T"], ["VERSION", "1.0"], ["VERSION", "1.0.0"], ["STATUS", "ACTIVE"], ["STATUS", "active"],
                                         ["STATUS", "ACT"], ["EXTRA", "x"]]), max_size=3, unique_by=lambda kv: kv[0])

    def build(doc, f, mf, use_f):
        d = dict(doc)
        if use_f:
            d["frontmatter"] = f
            d["sentinel"] = None
        keys = {k for k, _ in mf}
        d["meta"] = [[k, {"v": "str", "s": v, "cls": "word" if render.is_plain_word(v) else "version" if re.match(r"^\d+\.\d+\.\d+$", v) else "hostile"}]
                     for k, v in mf] + [kv for kv in d["meta"] if kv[0] not in keys]
        return d

    strat = hs.builds(build, model.document(depth=3, zones=True, comments=True, max_nodes=3, avoid=AVOID), fm, meta_fix, hs.booleans())
    counter = [0]

    def one(doc):
        i = counter[0]
        counter[0] += 1
        seeds = [(ctx.shard_seed(sh) + 31 * i + j) % (2**31) for j in range(2)]
        texts = texts_of(doc, seeds)
        schema = ["META", "SKILL"][i % 2]
        with scratch_dir() as root:
            fails = relation(schema, texts, with_write=(i % 3 == 0), root=root)
        nt = bool(doc["meta"]) and respelling_changes_value_form(texts)
        st.case({"schema": schema, "texts": [t for _, t, _ in texts][:3]}, nontrivial=nt, labels=["builtin_" + schema], key=[t for _, t, _ in texts])
        for sig, det in fails:
            st.fail(sig, {"kind": "builtin", "schema": schema, "doc": doc, "seeds": seeds}, det)

    drive(strat, one, ctx.shard_seed(sh, 21), n)
    return st


# ---------------------------------------------------------------------------------------------- (2) generated schemas
def V_of(src: str, v):
    if isinstance(v, bool):
        return {"v": "bool", "b": v}
    if v is None:
        return {"v": "null"}
    if isinstance(v, int):
        return {"v": "int", "i": str(v)}
    if isinstance(v, float):
        return {"v": "float", "f": repr(v)}
    if isinstance(v, list):
        return {"v": "list", "items": [V_of("", x) for x in v]}
    return {"v": "str", "s": v, "cls": "word" if render.is_plain_word(v) else "hostile"}


def instance_doc(case):
    kids = [{"t": "assign", "key": k, "value": V_of(*c08.INSTANCE_VALUES[i]), "lead": [], "trail": None} for k, i in case["assigns"]]
    body = [{"t": "block", "key": case["name"], "target": None, "kids": kids, "lead": [], "tail": []}]
    if case.get("declares_target"):
        # a block annotation declares a custom routing target for this document
        body.append({"t": "block", "key": "ARCHIVE", "target": "AUDIT_LOG", "lead": [], "tail": [],
                     "kids": [{"t": "assign", "key": "X", "value": {"v": "int", "i": "1"}, "lead": [], "trail": None}]})
    if case.get("zone_field") is not None:
        # a field holding a literal zone, judged by LANG[...] (tag comparison is case-insensitive): validation reads the tag,
        # it must not rewrite it
        tag = ["Python", "JSON", "python", "Bash", "PYTHON", None][case["zone_field"] % 6]
        body[0]["kids"].append({"t": "assign", "key": "SNIPPET", "lead": [], "trail": None,
                                "value": {"v": "zone", "content": "x = {1}\n  y -> z", "tag": tag, "fence": "```"}})
    if case.get("extra_top"):
        body.append({"t": "assign", "key": "OTHER", "value": {"v": "str", "s": "x -> y", "cls": "hostile"}, "lead": ["a note"], "trail": None})
    return {"name": "INSTANCE", "sentinel": None, "frontmatter": None, "meta": [["TYPE", {"v": "str", "s": "T", "cls": "word"}]], "sep": False,
            "body": body, "trailing": []}


def check_generated(case, root):
    from octave_mcp.schemas.loader import load_schema_by_name

    name = case["name"]
    sdir = os.path.join(root, "specs", "schemas")
    os.makedirs(sdir, exist_ok=True)
    spath = os.path.join(sdir, name.lower() + ".oct.md")
    with open(spath, "w", encoding="utf-8") as fh:
        flds = [(f, list(c)) for f, c in case["fields"]]
        if case.get("routes_to_target") and flds:
            flds[0] = (flds[0][0], flds[0][1][:-1] + [flds[0][1][-1] + "→§AUDIT_LOG"])  # the first field routes to a custom target
        if case.get("zone_field") is not None:
            flds.append(("SNIPPET", ["OPT", ["LANG[python]", "LANG[json]", "TYPE[LITERAL]", "LANG[Python]"][case["zone_field"] % 4]]))
        fh.write(c08.schema_text(name, case["policy"], flds))
    doc = instance_doc(case)
    if not doc["body"][0]["kids"]:
        return [], False, []
    texts = texts_of(doc, case["seeds"])
    old = os.getcwd()
    os.chdir(root)
    try:
        sd = load_schema_by_name(name)
        fails = relation(name, texts, with_write=case.get("with_write", False), root=root, section_schemas={sd.name: sd} if sd else None)
    finally:
        os.chdir(old)
        try:
            os.unlink(spath)
        except OSError:
            pass
    typed = any(re.match(r"TYPE|CONST|RANGE|ENUM", m) for _, ch in case["fields"] for m in ch)
    return fails, typed and respelling_changes_value_form(texts), texts


def shard_generated(ctx: Ctx, sh: int, nshards: int, n: int) -> Stats:
    from hypothesis import strategies as hs

    st = Stats()
    counter = [0]
    with scratch_dir() as root:
        def one(base):
            i = counter[0]
            counter[0] += 1
            case = {**base, "kind": "generated", "seeds": [(ctx.shard_seed(sh) + 17 * i + j) % (2**31) for j in range(2)],
                    "with_write": i % 3 == 0, "extra_top": i % 2 == 0, "routes_to_target": i % 4 == 1, "declares_target": i % 5 in (1, 2), "zone_field": (i // 3) % 12 if i % 3 == 1 else None}
            fails, nt, texts = check_generated(case, root)
            if not texts:
                return
            st.case({"schema": c08.schema_text(case["name"], case["policy"], case["fields"]), "texts": [t for _, t, _ in texts][:3]},
                    nontrivial=nt, labels=["generated_" + case["policy"]], key=[t for _, t, _ in texts] + [case["fields"], case["policy"]])
            for sig, det in fails:
                st.fail(sig, case, det)

        drive(c08.doc_strategy(), one, ctx.shard_seed(sh, 22), n, chunk=4000)
    return st


# ---------------------------------------------------------------------------------------------- module interface
def check_case(case) -> list[Failure]:
    with scratch_dir() as root:
        if case.get("kind") == "builtin":
            fails = relation(case["schema"], texts_of(case["doc"], case["seeds"]), with_write=True, root=root)
        else:
            fails, _, _ = check_generated({**case, "with_write": True}, root)
    return [Failure(s, case, d) for s, d in fails]


def shrink_candidates(case):
    if case.get("kind") == "builtin":
        for d in model.shrink_candidates(case["doc"]):
            yield {**case, "doc": d}
    else:
        for c in c08.shrink_candidates({**case, "kind": "doc"}):
            yield {**c, "kind": "generated"}
        if case.get("extra_top"):
            yield {**case, "extra_top": False}
        if case.get("zone_field") is not None:
            yield {**case, "zone_field": None}


def run(ctx: Ctx) -> Stats:
    st = run_sharded(shard_builtin, ctx, extra=(ctx.pick(150, 1500),))
    st.merge(run_sharded(shard_generated, ctx, extra=(ctx.pick(300, 3000),)))
    return st
