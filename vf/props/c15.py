"""C15 — a seal verifies on the sealed content and on nothing else.

Generator: model documents (known C01/C02 classes excluded by construction); for each, EVERY single-site tamper of the
model (replace / retype / delete / duplicate / swap / un-nest / rename at every node, list and zone edits incl.
re-indentation, envelope name, META add/change/remove, frontmatter edit and re-indent) re-rendered with the original SEAL
section, every position of the stored hash changed, the seal removed; cosmetic = seeded lenient respellings of the sealed
text.
Oracle: VERIFIED in memory, after emit->parse, after atomic_write_octave / CLI `seal -o` + CLI `validate --verify-seal
--require-seal`; same HASH when sealed again; respelling => VERIFIED; tamper whose normal form differs => INVALID; no
seal => NO_SEAL (exit 1 with --require-seal).
"""

from __future__ import annotations

import copy
import os
import re

from vf import docprop, model, render, tools
from vf.common import Ctx, Failure, Stats, drive, run_sharded, scratch_dir

PROP = "C15"
LEVEL = "exploration"
RULE = (
    "Hypothesis model documents (depth<=3, all value kinds, comments, zones, META, frontmatter) sealed through seal_document; "
    "per document: all single-site model tampers (value replaced / retyped str<->number<->bool<->null / list item dropped, "
    "reordered, nested / zone content, indentation, tag or fence edited; node deleted, duplicated, swapped with its sibling, "
    "last child moved out of its block; key, section id/name, block target, envelope name renamed; META field added, changed, "
    "removed; frontmatter edited or re-indented) each re-rendered with the ORIGINAL seal section; 64 single-character changes "
    "of the stored hash; seal removed; 2 lenient respellings. Oracle: sealed => VERIFIED (memory, emit->parse, file + CLI "
    "[every 5th document]); resealing keeps HASH; respelling => VERIFIED; tamper with changed normal form => INVALID; no seal => "
    "NO_SEAL. Non-trivial = tamper that changes only a type, an order, a parent or indentation inside opaque text (zone, "
    "frontmatter); distinct by (document, tamper)."
)
ASSUMPTIONS = [
    "comments, the --- separator and the grammar sentinel are covered by the hash but are not in the property's list; tampers that touch only them are not generated",
    "tampered texts are produced by the conservative canonical renderer, so a tamper never depends on a lenient reading",
]
AVOID = frozenset({"comment_after_empty", "cr", "zone_one_blank", "nfc_after_escape"})
SEAL_RE = re.compile(r"(?ms)^§SEAL::SEAL\n(?:  .*\n)+")


# ---------------------------------------------------------------------------------------------- tampers
def alt_values(V):
    """[(label, V')] — single-site changes of one value."""
    k = V["v"]
    S = lambda s: {"v": "str", "s": s, "cls": "hostile"}  # noqa: E731
    out = []
    if k == "str":
        s = V["s"]
        out.append(("value-changed", S(s + "x")))
        # an edit nobody sees on screen: a zero-width / format / combining character inserted into the text (NFC leaves all of
        # these in place, so the value is another value)
        inv = ["\u200b", "\u2060", "\ufeff", "\u200d", "\u00ad", "\u200e", "\u034f"][len(s) % 7]
        out.append(("value-invisible-char-inserted", S(s[: len(s) // 2] + inv + s[len(s) // 2:])))
        if " " in s:
            out.append(("value-space-to-nbsp", S(s.replace(" ", "\u00a0", 1))))
        if "\n" in s:
            out.append(("value-newline-to-other-separator", S(s.replace("\n", ["\u2028", "\x85", "\x0c"][len(s) % 3], 1))))
            out.append(("value-newline-to-backslash-n-text", S(s.replace("\n", "\\n", 1))))
        if "\t" in s:
            out.append(("value-tab-to-backslash-t-text", S(s.replace("\t", "\\t", 1))))
        if "\\n" in s:
            out.append(("value-backslash-n-text-to-newline", S(s.replace("\\n", "\n", 1))))
        if "\\" in s:
            out.append(("value-backslash-doubled", S(s.replace("\\", "\\\\", 1))))
        if s:
            out.append(("value-char-dropped", S(s[:-1])))
            if s != s.swapcase():
                out.append(("value-case", S(s.swapcase())))
        if re.fullmatch(r"-?\d+", s):
            out.append(("type-str-to-int", {"v": "int", "i": str(int(s))}))
        if s in ("true", "false"):
            out.append(("type-str-to-bool", {"v": "bool", "b": s == "true"}))
        if s == "null":
            out.append(("type-str-to-null", {"v": "null"}))
        out.append(("type-scalar-to-list", {"v": "list", "items": [V]}))
    elif k == "int":
        out.append(("value-changed", {"v": "int", "i": str(int(V["i"]) + 1)}))
        out.append(("type-int-to-str", S(V["i"])))
        out.append(("type-int-to-float", {"v": "float", "f": repr(float(int(V["i"])))}) if abs(int(V["i"])) < 2**53 else ("value-neg", {"v": "int", "i": str(-int(V["i"]) - 1)}))
    elif k == "float":
        f = float(V["f"])
        out.append(("value-changed", {"v": "float", "f": repr(f + 1.0 if abs(f) < 1e15 else f * 2)}))
        out.append(("type-float-to-str", S(V["f"])))
    elif k == "bool":
        out.append(("value-changed", {"v": "bool", "b": not V["b"]}))
        out.append(("type-bool-to-str", S("true" if V["b"] else "false")))
    elif k == "null":
        out.append(("type-null-to-str", S("null")))
        out.append(("type-null-to-emptystr", S("")))
    elif k == "list":
        items = V["items"]
        if items:
            out.append(("list-item-dropped", {**V, "items": items[:-1]}))
            if len(items) >= 2 and items[0] != items[1]:
                out.append(("order-list-swapped", {**V, "items": [items[1], items[0]] + items[2:]}))
            if len(items) >= 2:
                out.append(("nesting-list-regrouped", {**V, "items": [{"v": "list", "items": items[:2]}] + items[2:]}))
            it = items[0]
            if it["v"] == "pair":
                out.append(("pair-key-renamed", {**V, "items": [{**it, "key": it["key"] + "X"}] + items[1:]}))
                for lb, nv in [x for x in alt_values(it["value"]) if x[1]["v"] != "list"][:2]:  # (the renderers write atoms as pair values)
                    out.append(("pair-" + lb, {**V, "items": [{**it, "value": nv}] + items[1:]}))
            elif it["v"] != "list":
                for lb, nv in alt_values(it)[:2]:
                    if nv["v"] != "list":
                        out.append(("item-" + lb, {**V, "items": [nv] + items[1:]}))
        else:
            out.append(("type-emptylist-to-emptystr", S("")))
        out.append(("list-item-added", {**V, "items": items + [S("added")]}))
    elif k == "holo":
        out.append(("holo-chain-changed", {**V, "chain": V["chain"] + ["OPT"] if "OPT" not in V["chain"] and "REQ" not in V["chain"] else V["chain"][:-1] or ["DIR"]}))
        out.append(("holo-target-changed", {**V, "target": None if V["target"] else "SELF"}))
    elif k == "zone":
        lines = model.zone_lines(V)
        mk = lambda ls, **kw: {**V, "content": "\n".join(ls), "lines": ls, **kw}  # noqa: E731
        out.append(("zone-line-added", mk(lines + ["tampered"])))
        if lines:
            out.append(("indent-zone-line", mk([" " + lines[0]] + lines[1:])))
            if lines[-1] != "":
                out.append(("zone-trailing-space", mk(lines[:-1] + [lines[-1] + " "])))
            if len(lines) >= 2 and lines[0] != lines[1]:
                out.append(("order-zone-lines", mk([lines[1], lines[0]] + lines[2:])))
            if len(lines) >= 2:
                out.append(("zone-line-dropped", mk(lines[1:])))
                # a line break of the zone replaced by a character that is a line break only for str.splitlines()
                sep = ["\u2028", "\x85", "\x0c", "\x0b", "\u2029"][len(lines[0]) % 5]
                out.append(("zone-linebreak-to-other-separator", mk([lines[0] + sep + lines[1]] + lines[2:])))
        out.append(("zone-tag", {**V, "tag": None if V["tag"] else "text"}))
        out.append(("zone-fence", {**V, "fence": V["fence"] + "`"}))
    return out


def node_tampers(nodes):
    """Yield (label, new sibling list) for single-site changes inside this sibling list (recursively)."""
    for i, n in enumerate(nodes):
        rep = lambda m, i=i: nodes[:i] + [m] + nodes[i + 1:]  # noqa: E731
        yield "node-deleted", nodes[:i] + nodes[i + 1:]
        if n["t"] != "zone":
            yield "node-duplicated", nodes[:i + 1] + [n] + nodes[i + 1:]
        if i + 1 < len(nodes) and strip_c(nodes[i + 1]) != strip_c(n) and nodes[i + 1]["t"] != "zone" and n["t"] != "zone":
            yield "order-siblings-swapped", nodes[:i] + [nodes[i + 1], n] + nodes[i + 2:]
        if n["t"] == "assign":
            yield "key-renamed", rep({**n, "key": n["key"] + "X"})
            for lb, nv in alt_values(n["value"]):
                yield lb, rep({**n, "value": nv, "trail": None if nv["v"] == "zone" else n.get("trail")})
        elif n["t"] == "zone":
            for lb, nv in alt_values(n["zone"]):
                yield lb, rep({**n, "zone": nv})
        elif n["t"] in ("block", "section"):
            if n["t"] == "block":
                yield "key-renamed", rep({**n, "key": n["key"] + "X"})
                yield "block-target", rep({**n, "target": None if n["target"] else "SELF"})
            else:
                yield "section-id", rep({**n, "id": n["id"] + "9"})
                yield "section-name", rep({**n, "name": n["name"] + "X"})
                yield "section-annotation", rep({**n, "ann": None if n["ann"] else "note"})
            kids = n["kids"]
            if kids and kids[-1]["t"] != "zone":
                # parent change: the last child leaves the container and becomes its next sibling
                yield "parent-last-child-moved-out", nodes[:i] + [{**n, "kids": kids[:-1], "tail": []}, {**kids[-1], "lead": []}] + nodes[i + 1:]
            if i + 1 < len(nodes) and nodes[i + 1]["t"] == "assign" and kids:
                yield "parent-next-sibling-moved-in", nodes[:i] + [{**n, "kids": kids + [{**nodes[i + 1], "lead": []}], "tail": []}] + nodes[i + 2:]
            for lb, ks in node_tampers(kids):
                yield lb, rep({**n, "kids": ks, "tail": n.get("tail", []) if ks else []})


def strip_c(n):
    n = {k: v for k, v in n.items() if k not in ("lead", "trail", "tail")}
    if "kids" in n:
        n["kids"] = [strip_c(k) for k in n["kids"]]
    return n


def tampers(doc):
    yield "envelope-name", {**doc, "name": doc["name"] + "X"}
    m = doc["meta"]
    yield "meta-added", {**doc, "meta": m + [["ZZADDED", {"v": "str", "s": "x", "cls": "word"}]]}
    for i, (k, v) in enumerate(m):
        yield "meta-removed", {**doc, "meta": m[:i] + m[i + 1:]}
        yield "meta-key-renamed", {**doc, "meta": m[:i] + [[k + "X", v]] + m[i + 1:]}
        if "nested" in v:
            nn = v["nested"]
            for lb, nv in alt_values(nn[0][1])[:3]:
                yield "meta-nested-" + lb, {**doc, "meta": m[:i] + [[k, {"nested": [[nn[0][0], nv]] + nn[1:]}]] + m[i + 1:]}
            yield "meta-nested-key", {**doc, "meta": m[:i] + [[k, {"nested": [[nn[0][0] + "X", nn[0][1]]] + nn[1:]}]] + m[i + 1:]}
        else:
            for lb, nv in alt_values(v)[:4]:
                yield "meta-" + lb, {**doc, "meta": m[:i] + [[k, nv]] + m[i + 1:]}
        if i + 1 < len(m) and m[i + 1] != m[i]:
            yield "order-meta-swapped", {**doc, "meta": m[:i] + [m[i + 1], m[i]] + m[i + 2:]}
    fm = doc.get("frontmatter")
    if fm is not None and fm.strip():
        yield "frontmatter-edited", {**doc, "frontmatter": fm + "\nextra: 1"}
        yield "indent-frontmatter", {**doc, "frontmatter": "\n".join(" " + ln for ln in fm.split("\n"))}
        lines = fm.split("\n")
        if len(lines) >= 2 and lines[0] != lines[1]:
            yield "order-frontmatter-lines", {**doc, "frontmatter": "\n".join([lines[1], lines[0]] + lines[2:])}
    elif fm is None and not doc.get("sentinel"):
        yield "frontmatter-added", {**doc, "frontmatter": "name: x"}
    for lb, body in node_tampers(doc["body"]):
        yield lb, {**doc, "body": body}


def with_seal(text: str, seal_block: str) -> str:
    """Insert the seal section before ===END=== (or at the end if the envelope end is omitted)."""
    if re.search(r"(?m)^===END===\s*\Z", text):
        return re.sub(r"(?m)^===END===\s*\Z", lambda m: seal_block + "===END===\n", text)
    return text.rstrip("\n") + "\n" + seal_block


# ---------------------------------------------------------------------------------------------- one document
def check(doc, seeds, with_files, root, only=None):
    """only: optional (label, index) to replay exactly one tamper."""
    from octave_mcp import emit, parse
    from octave_mcp.core.lexer import LexerError
    from octave_mcp.core.parser import ParserError, parse_with_warnings
    from octave_mcp.core.sealer import SealStatus, seal_document, verify_seal

    fails: dict = {}
    stats = {"tampers": 0, "nontrivial": 0, "skipped_same_nf": 0, "skipped_unreadable": 0, "labels": {}}
    ctext, _ = docprop.render_case(doc, {"k": "canon"})
    try:
        d0 = parse(ctext)
    except (LexerError, ParserError):
        return [], stats
    base_nf = model.nf_model(doc)[0]
    sealed = seal_document(d0)
    stext = emit(sealed)
    m = SEAL_RE.search(stext)
    if not m:
        return [("C15:unlisted:no-seal-section-in-sealed-text", f"sealed text has no §SEAL section: {stext!r}")], stats
    seal_block = m.group(0)
    hm = re.search(r'HASH::"?([0-9a-f]{64})"?', seal_block)
    if not hm:
        return [("C15:unlisted:seal-hash-unreadable", f"no 64-hex HASH in {seal_block!r}")], stats
    H = hm.group(1)

    def status_of(text, lenient=False):
        try:
            d = parse_with_warnings(text)[0] if lenient else parse(text)
        except (LexerError, ParserError):
            return None
        return verify_seal(d).status

    if only is None:
        # ---- positive: in memory, after emit->parse, reseal
        if verify_seal(sealed).status != SealStatus.VERIFIED:
            fails["C15:unlisted:sealed-not-verified-in-memory"] = f"verify_seal(seal_document(d)) = {verify_seal(sealed).status} | text={ctext!r}"
        st1 = status_of(stext)
        if st1 != SealStatus.VERIFIED:
            fails["C15:unlisted:sealed-not-verified-after-reread"] = f"sealed text re-read gives {st1} | sealed={stext!r}"
        try:
            again = emit(seal_document(parse(stext)))
            hm2 = re.search(r'HASH::"?([0-9a-f]{64})"?', again)
            if not hm2 or hm2.group(1) != H:
                fails["C15:unlisted:reseal-changes-hash"] = f"sealing the sealed document again gives another HASH: {H} -> {hm2.group(1) if hm2 else None} | sealed={stext!r}"
        except (LexerError, ParserError):
            pass
        if status_of(ctext) != SealStatus.NO_SEAL:
            fails["C15:unlisted:unsealed-not-no-seal"] = f"document without seal reports {status_of(ctext)}"
        # ---- cosmetic respellings of the sealed text
        for s in seeds:
            lt, info = docprop.render_case(doc, {"k": "len", "seed": s, "level": 0.6, "deny": ["zone_fence_at_key_column"]})  # (only the cosmetic rewrites C03 lists)
            lsealed = with_seal(lt, seal_block)
            stl = status_of(lsealed, lenient=True)
            if stl is None:
                continue
            if stl != SealStatus.VERIFIED:
                fails.setdefault("C15:unlisted:respelling-not-verified", f"cosmetic respelling of the sealed text gives {stl} | used={info['used']} | text={lsealed!r} | sealed={stext!r}")
        # ---- stored hash: every position
        for pos in range(64):
            ch = "0" if H[pos] != "0" else "1"
            t = stext.replace(H, H[:pos] + ch + H[pos + 1:])
            if status_of(t) != SealStatus.INVALID:
                fails.setdefault("C15:unlisted:hash-change-not-invalid", f"changing character {pos} of the stored hash gives {status_of(t)}")
                break
        # ---- stored hash re-spelled: other letter case, blanks inside the quotes, a prefix, the digest of something else
        for lb, H2 in (("upper", H.upper()), ("mixed", H[:32].upper() + H[32:]), ("padded", " " + H + " "), ("prefixed", "sha256:" + H), ("truncated", H[:63]),
                       ("doubled", H + H)):
            if H2 == H:
                continue
            for quoted in (True, False) if lb in ("upper", "mixed") else (True,):
                t = re.sub(r'HASH::"?' + H + '"?', ('HASH::"' + H2 + '"') if quoted else ("HASH::" + H2), stext)
                st_t = status_of(t)
                if st_t is not None and st_t != SealStatus.INVALID:
                    fails.setdefault(f"C15:unlisted:hash-respelled-not-invalid:{lb}", f"stored hash changed ({lb}: {H2[:20]!r}...) gives {st_t}")
            stats["tampers"] += 1
        stats["tampers"] += 64
        # ---- files + CLI
        if with_files and root:
            from octave_mcp.core.file_ops import atomic_write_octave

            p_in = os.path.join(root, "in.oct.md")
            p_out = os.path.join(root, "sealed.oct.md")
            with open(p_in, "w", encoding="utf-8") as fh:
                fh.write(ctext)
            code, out, err, exc = tools.cli(["seal", p_in, "-o", p_out])
            if code == 0 and exc is None and os.path.exists(p_out):
                code, out, err, exc = tools.cli(["validate", p_out, "--verify-seal", "--require-seal"])
                if code != 0 or "Seal: VERIFIED" not in out:
                    fails["C15:unlisted:cli-sealed-file-not-verified"] = f"CLI seal -o then validate --verify-seal --require-seal: exit={code} {out[-200:]!r} {err[-200:]!r}"
                code, out, err, exc = tools.cli(["validate", p_in, "--verify-seal", "--require-seal"])
                if code == 0:
                    fails["C15:unlisted:cli-require-seal-passes-unsealed"] = "validate --verify-seal --require-seal exits 0 on an unsealed file"
                # the sealed file with one character of its stored hash changed: every seal-checking flag combination, from a
                # file and from stdin, must say INVALID and must not exit 0
                with open(p_out, encoding="utf-8", newline="") as fh:
                    ftext = fh.read()
                fm = re.search(r"[0-9a-f]{64}", SEAL_RE.search(ftext).group(0)) if SEAL_RE.search(ftext) else None
                if fm:
                    fh_ = fm.group(0)
                    bad = ftext.replace(fh_, ("0" if fh_[0] != "0" else "1") + fh_[1:])
                    with open(p_out, "w", encoding="utf-8", newline="") as fh:
                        fh.write(bad)
                    for flags in (["--verify-seal"], ["--verify-seal", "--require-seal"], ["--require-seal", "--verify-seal"]):
                        for src in ("file", "stdin"):
                            if src == "file":
                                code, out, err, exc = tools.cli(["validate", p_out] + flags)
                            else:
                                code, out, err, exc = tools.cli(["validate", "--stdin"] + flags, input=bad)
                            stats["labels"]["cli_tampered_runs"] = stats["labels"].get("cli_tampered_runs", 0) + 1
                            if exc is None and "Seal: VERIFIED" in out:
                                fails["C15:unlisted:cli-tampered-file-verified"] = f"validate {' '.join(flags)} ({src}) on a file whose stored hash was changed prints Seal: VERIFIED"
                            elif exc is None and code == 0:
                                fails["C15:unlisted:cli-tampered-file-exit-0"] = f"validate {' '.join(flags)} ({src}) on a file whose stored hash was changed exits 0: {out[-160:]!r}"
                os.unlink(p_out)
            p2 = os.path.join(root, "aw.oct.md")
            r = atomic_write_octave(p2, stext, None)
            if r.get("status") == "success":
                with open(p2, encoding="utf-8", newline="") as fh:
                    back = fh.read()
                if status_of(back) != SealStatus.VERIFIED:
                    fails["C15:unlisted:written-file-not-verified"] = f"sealed text written with atomic_write_octave and read back gives {status_of(back)}"
                os.unlink(p2)
    # ---- negative: every single-site tamper with the original seal
    for idx, (label, t) in enumerate(tampers(doc)):
        if only is not None and (label, idx) != tuple(only):
            continue
        t = model.drop_zone_after_empty_block(t)
        if model.nf_model(t)[0] == base_nf:
            stats["skipped_same_nf"] += 1
            continue
        ttext, _ = docprop.render_case(t, {"k": "canon"})
        stt = status_of(with_seal(ttext, seal_block))
        if stt is None:
            stats["skipped_unreadable"] += 1
            continue
        stats["tampers"] += 1
        stats["labels"][label.split("-")[0]] = stats["labels"].get(label.split("-")[0], 0) + 1
        if label.split("-")[0] in ("type", "order", "parent", "indent", "nesting"):
            stats["nontrivial"] += 1
        if stt != SealStatus.INVALID:
            fails.setdefault(f"C15:unlisted:tamper-not-detected:{label}",
                             f"tamper {label!r} (#{idx}) with the original seal verifies as {stt} | original={ctext!r} | tampered={ttext!r}")
            fails[f"C15:unlisted:tamper-not-detected:{label}"] = fails[f"C15:unlisted:tamper-not-detected:{label}"]
            _LAST_ONLY[0] = [label, idx]
    return [(s, d[:1800]) for s, d in fails.items()], stats


_LAST_ONLY = [None]


def shard(ctx: Ctx, sh: int, nshards: int, n: int) -> Stats:
    st = Stats()
    counter = [0]
    with scratch_dir() as root:
        def one(doc):
            i = counter[0]
            counter[0] += 1
            seeds = [(ctx.shard_seed(sh) + 13 * i + j) % (2**31) for j in range(2)]
            fails, stats = check(doc, seeds, i % 5 == 0, root)
            st.evaluations += stats["tampers"] + 5
            st.nontrivial_exact += stats["nontrivial"]
            st.labels["nontrivial"] += stats["nontrivial"]
            st.labels["documents"] += 1
            st.labels["tampers_skipped_same_content"] += stats["skipped_same_nf"]
            st.labels["tampers_skipped_unreadable"] += stats["skipped_unreadable"]
            for k, v in stats["labels"].items():
                st.labels["tamper_" + k] += v
            if len(st.samples) < 3 and stats["nontrivial"]:
                st.samples.append({"document": docprop.render_case(doc, {"k": "canon"})[0], "tampers": stats["labels"]})
            for sig, det in fails:
                st.fail(sig, {"doc": doc, "seeds": seeds}, det)

        drive(model.document(depth=3, zones=True, comments=True, max_nodes=4, meta_zones=True, avoid=AVOID), one, ctx.shard_seed(sh, 81), n)
    st.notes.append("non-trivial tampers are distinct by construction: each is a different (document, site, kind) triple")
    return st


def check_case(case) -> list[Failure]:
    with scratch_dir() as root:
        fails, _ = check(case["doc"], case.get("seeds", [1, 2]), True, root)
    return [Failure(s, case, d) for s, d in fails]


def shrink_candidates(case):
    for d in model.shrink_candidates(case["doc"]):
        yield {**case, "doc": d}


def run(ctx: Ctx) -> Stats:
    return run_sharded(shard, ctx, extra=(ctx.pick(80, 800),))
