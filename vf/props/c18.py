"""C18 — absent, null and value stay distinct; changes touch only named keys (I2).

Generators: (1) model documents x sequences of <=3 change requests built from the document's own top-level / META keys and
fresh keys, each with every operation (DELETE, null, value of every kind incl. lists, objects, empty string, empty list),
in the forms KEY, META.X and META{...}, also via `mutations`, through octave_write and CLI `write --changes`;
(2) small ASTs with `Absent` planted at every position (assignment, block child, section child, META, nested META, list
item, pair value) and the four "empty" values ("" / [] / null / absent) side by side.
Oracle: frame model — expected document = the model with exactly the named operation applied; the written file must be
byte-identical to the canonical text of the expected model (so every unmentioned key keeps exactly its canonical lines),
and re-reading gives present / None / value as requested.
"""

from __future__ import annotations

import itertools
import json
import os

from vf import docprop, model, render, tools
from vf.common import Ctx, Failure, Stats, drive, run_sharded, scratch_dir

PROP = "C18"
LEVEL = "exploration"
RULE = (
    "(1) Hypothesis model documents (depth<=3, all value kinds, comments, zones, META) x 1-3 sequential change requests; each "
    "request names 1-3 keys among the document's top-level assignment keys, its META keys and fresh keys, with an operation from "
    "{DELETE, null, str (plain / hostile / empty / number-looking / reserved-looking), int, float, bool, list, nested list, empty list, "
    "object} in the forms KEY / META.X / META{...} (incl. DELETE inside) / mutations; through octave_write(changes) and CLI write "
    "--changes [JSON-expressible requests, every 3rd]. Oracle: file bytes == canonical text of (model with exactly the operations "
    "applied); read-back present/None/value as requested. (2) exhaustive: Absent at each of 7 positions x 3 neighbour shapes, and "
    "all 24 orders of the four empty values, emitted and re-read. Non-trivial (1) = the document has >=3 unmentioned keys of "
    "which >=1 needs quoting or multi-line layout; distinct by (document text, requests)."
)
ASSUMPTIONS = [
    "requests address top-level assignments, META fields and fresh keys (a request naming a block or section key is not generated: "
    "the tool's contract for it is not documented)",
    "nodes that a request deletes carry no comments of their own (which neighbour a comment belongs to is layout, see C02)",
    "documents have no empty blocks/sections, so that a deletion cannot move a comment directly behind an empty container header (known C02 class)",
]
AVOID = frozenset({"comment_after_empty", "cr", "zone_one_blank", "nfc_after_escape", "holo"})

VALUE_POOL = [
    {"v": "str", "s": "word", "cls": "word"}, {"v": "str", "s": "two words", "cls": "hostile"}, {"v": "str", "s": "", "cls": "hostile"},
    {"v": "str", "s": "42", "cls": "hostile"}, {"v": "str", "s": "true", "cls": "hostile"}, {"v": "str", "s": "null", "cls": "hostile"},
    {"v": "str", "s": 'say "hi" \\ back\nnew', "cls": "hostile"}, {"v": "str", "s": "a -> b // c", "cls": "hostile"}, {"v": "str", "s": "§1", "cls": "hostile"},
    {"v": "str", "s": "[x]", "cls": "hostile"}, {"v": "str", "s": "{\"$op\":\"DELETE\"}", "cls": "hostile"}, {"v": "str", "s": "é😀", "cls": "hostile"},
    {"v": "int", "i": "0"}, {"v": "int", "i": "-7"}, {"v": "int", "i": str(2**70)}, {"v": "float", "f": "2.5"}, {"v": "float", "f": "1e+22"},
    {"v": "bool", "b": True}, {"v": "bool", "b": False},
    {"v": "list", "items": []}, {"v": "list", "items": [{"v": "str", "s": "a", "cls": "word"}, {"v": "int", "i": "1"}]},
    {"v": "list", "items": [{"v": "list", "items": [{"v": "str", "s": "x y", "cls": "hostile"}]}, {"v": "null"}, {"v": "bool", "b": True}]},
    {"v": "list", "items": [{"v": "pair", "key": "k", "value": {"v": "str", "s": "v", "cls": "word"}}, {"v": "str", "s": "z", "cls": "word"}]},
    {"v": "list", "items": [{"v": "str", "s": "", "cls": "hostile"}]},
]
OBJECTS = [[["k1", {"v": "str", "s": "v1", "cls": "word"}], ["k2", {"v": "int", "i": "2"}]], [["only", {"v": "null"}]]]


def py_of(V):
    k = V["v"]
    if k == "list":
        return [({i["key"]: py_of(i["value"])} if i["v"] == "pair" else py_of(i)) for i in V["items"]]
    return model.pyval(V)


def op_value(op):
    """Python value sent to the tool for an operation."""
    if op["op"] == "delete":
        return {"$op": "DELETE"}
    if op["op"] == "null":
        return None
    if op["op"] == "value":
        return py_of(VALUE_POOL[op["i"]])
    if op["op"] == "object":
        return {k: py_of(v) for k, v in OBJECTS[op["i"]]}
    raise ValueError(op)


def op_model_value(op):
    if op["op"] == "null":
        return {"v": "null"}
    if op["op"] == "value":
        return VALUE_POOL[op["i"]]
    if op["op"] == "object":  # an object becomes an inline map: read back as a list of KEY::value pairs
        return {"v": "list", "items": [{"v": "pair", "key": k, "value": v} for k, v in OBJECTS[op["i"]]]}
    raise ValueError(op)


# ---------------------------------------------------------------------------------------------- frame model
def apply_request(doc, request, mutations=False):
    """request: list of [key, op] in order (for key 'META' op = {"op":"meta", "items":[[mk, op]...]})."""
    d = {**doc, "meta": [list(x) for x in doc["meta"]], "body": list(doc["body"])}

    def meta_set(name, op):
        if op["op"] == "delete":
            d["meta"] = [kv for kv in d["meta"] if kv[0] != name]
            return
        V = op_model_value(op)
        for kv in d["meta"]:
            if kv[0] == name:
                kv[1] = V
                return
        d["meta"].append([name, V])

    for key, op in request:
        if mutations:
            meta_set(key, op)
        elif key.startswith("META."):
            meta_set(key[5:], op)
        elif key == "META":
            if op["op"] == "delete":
                d["meta"] = []
            else:
                for mk, mop in op["items"]:
                    meta_set(mk, mop)
        elif op["op"] == "delete":
            d["body"] = [n for n in d["body"] if not (n["t"] == "assign" and n["key"] == key)]
        else:
            V = op_model_value(op)
            for i, n in enumerate(d["body"]):
                if n["t"] == "assign" and n["key"] == key:
                    d["body"][i] = {**n, "value": V, "trail": n.get("trail")}
                    break
            else:
                d["body"].append({"t": "assign", "key": key, "value": V, "lead": [], "trail": None})
    return d


def request_payload(request, mutations=False):
    out = {}
    for key, op in request:
        if key == "META" and op["op"] == "meta":
            out["META"] = {mk: op_value(mop) for mk, mop in op["items"]}
        else:
            out[key] = op_value(op)
    return out


def prepare(doc, requests):
    """Construction-time exclusions: nodes that will be deleted carry no comments; deleted/updated keys are top-level assignments."""
    deleted = {key for req in requests for key, op in req["items"] if not req.get("mutations") and op["op"] == "delete" and key != "META" and not key.startswith("META.")}
    body = []
    for i, n in enumerate(doc["body"]):
        if n["t"] == "assign" and n["key"] in deleted:
            n = {**n, "lead": [], "trail": None}
            if body and body[-1]["t"] in ("block", "section"):
                body[-1] = {**body[-1], "tail": []}
        body.append(n)
    trailing = doc.get("trailing", [])
    if body and body[-1]["t"] == "assign" and body[-1]["key"] in deleted:
        trailing = []
    # a request that appends a fresh key: whether a comment at the very end of the document belongs to the last
    # container or to the document is layout (C02), so such documents carry no comment there
    existing = {n["key"] for n in body if n["t"] == "assign"}
    appends = any(not req.get("mutations") and key != "META" and not key.startswith("META.") and op["op"] != "delete" and key not in existing
                  for req in requests for key, op in req["items"]) or len(requests) > 1
    if appends:
        trailing = []

        def strip_tail(n):
            if n["t"] in ("block", "section"):
                n = {**n, "tail": []}
                if n["kids"]:
                    n = {**n, "kids": n["kids"][:-1] + [strip_tail(n["kids"][-1])]}
            return n

        if body:
            body[-1] = strip_tail(body[-1])
    # zone values with a trailing comment slot are not representable; nothing to do. Updated nodes holding a zone lose it (value replaced).
    return {**doc, "body": body, "trailing": trailing}


_INFO = {"layout_only_differences": 0}


def top_spans(text: str):
    """{key: [(first_line, last_line)]} (1-based, inclusive) of the top-level assignments of a canonical text, plus 'META'."""
    from octave_mcp import parse
    from octave_mcp.core.ast_nodes import Assignment, Comment

    d = parse(text)
    lines = text.split("\n")
    n_lines = len(lines) - 1 if lines and lines[-1] == "" else len(lines)
    end_line = max((i + 1 for i, ln in enumerate(lines) if ln == "===END==="), default=n_lines + 1)
    starts = []
    for node in d.sections:
        first = node.line - (0 if isinstance(node, Comment) else len(getattr(node, "leading_comments", None) or []))
        starts.append((first, node))
    spans: dict = {}
    for i, (first, node) in enumerate(starts):
        nxt = starts[i + 1][0] if i + 1 < len(starts) else end_line - len(d.trailing_comments or [])
        if isinstance(node, Assignment):
            spans.setdefault(node.key, []).append((first, nxt - 1))
    meta_first = next((i + 1 for i, ln in enumerate(lines) if ln == "META:"), None)
    if meta_first is not None:
        body_first = starts[0][0] if starts else end_line - len(d.trailing_comments or [])
        last = body_first - 1
        for n in range(meta_first, body_first):
            if lines[n - 1] == "---":  # the separator is not part of META
                last = n - 1
                break
        spans["META"] = [(meta_first, last)]
    else:
        # a META block that does not exist yet would be written right after the envelope line
        env = next((i + 1 for i, ln in enumerate(lines) if ln.startswith("===") and ln != "===END==="), 0)
        spans["META"] = [(env + 1, env)]
    return spans, lines


def frame_violations(before: str, after: str, req, mutations: bool):
    """Every differing hunk between the two canonical texts must lie inside the line span of a key the request names."""
    import difflib

    named = set()
    for key, _ in req["items"]:
        named.add("META" if (mutations or key == "META" or key.startswith("META.")) else key)
    try:
        sb, lb = top_spans(before)
        sa, la = top_spans(after)
    except Exception as e:
        return [f"unreadable text: {e!r}"]

    def rest(spans, lines):
        # stand-alone comment lines are neutral here: which neighbour owns them is layout; their text, kind and position
        # between fields are compared by the content check against the frame model
        return [ln for n, ln in enumerate(lines, start=1)
                if not any(a <= n <= b for k in named for a, b in spans.get(k, [])) and not ln.lstrip().startswith("//")]

    rb, ra = rest(sb, lb), rest(sa, la)
    if rb != ra:
        d = [x for x in difflib.unified_diff(rb, ra, lineterm="", n=0) if not x.startswith(("---", "+++", "@@"))]
        return [f"outside the named keys: {d[:6]!r}"]
    return []


def canonical(doc_model):
    from octave_mcp import emit, parse

    return emit(parse(render.render_canonical(doc_model)))


def check(case, root, with_cli):
    from octave_mcp import emit, parse
    from octave_mcp.core.lexer import LexerError
    from octave_mcp.core.parser import ParserError

    doc = prepare(case["doc"], case["requests"])
    fails: dict = {}
    try:
        c0 = canonical(doc)
    except (LexerError, ParserError):
        return [], False
    path = os.path.join(root, "c.oct.md")
    cli_path = os.path.join(root, "cli.oct.md")
    for pth in (path, cli_path):
        with open(pth, "w", encoding="utf-8", newline="") as fh:
            fh.write(c0)
    cur = doc
    cli_ok = with_cli
    for step, req in enumerate(case["requests"]):
        mut = bool(req.get("mutations"))
        payload = request_payload(req["items"], mut)
        expected = apply_request(cur, req["items"], mut)
        try:
            want = canonical(expected)
        except (LexerError, ParserError):
            return [(s, d) for s, d in fails.items()], False  # the expected document itself is outside C01's domain
        if mut:
            r = tools.write(target_path=path, changes={}, mutations=payload)
        else:
            r = tools.write(target_path=path, changes=payload)
        if r.get("status") != "success":
            fails.setdefault("C18:unlisted:write-refused", f"step {step}: octave_write(changes={payload!r}) refused: {r.get('errors')} | file={c0!r}")
            break
        with open(path, encoding="utf-8", newline="") as fh:
            got = fh.read()
        got_file = got
        if got != want and not frame_violations(canonical(cur) if step else c0, got, req, mut):
            # the named keys' own new lines may be laid out differently from a fresh canonicalisation (e.g. a comment
            # that now sits at another indent): content must still be exactly the frame model's, and every
            # unmentioned line is unchanged (checked by frame_violations)
            try:
                if model.nf_ast(parse(got)) == model.nf_ast(parse(want)):
                    _INFO["layout_only_differences"] += 1
                    got = want
            except Exception:
                pass
        if got != want:
            gn, wn = None, None
            try:
                gn, wn = model.nf_ast(parse(got)), model.nf_ast(parse(want))
            except Exception:
                pass
            kind = "content" if (gn is None or gn[0] != wn[0]) else ("comments" if gn[1] != wn[1] else "layout")
            diff = model.first_diff(wn[0], gn[0], "doc") if gn is not None and gn[0] != wn[0] else ""
            fails.setdefault(f"C18:unlisted:{'mutations' if mut else 'changes'}:{kind}-differs-from-frame-model",
                             f"step {step}: request {payload!r}: {diff} | got={got!r} | want={want!r} | before={canonical(cur)!r}")
            break
        # read-back against the model itself (independent of the emitter): present / None / value exactly as requested
        try:
            back = model.nf_ast(parse(got_file))[0]
            exp_nf = model.nf_model(expected)[0]
            if back != exp_nf:
                fails.setdefault(f"C18:unlisted:{'mutations' if mut else 'changes'}:read-back-differs-from-request",
                                 f"step {step}: request {payload!r}: {model.first_diff(exp_nf, back, 'doc')} | file={got_file!r}")
                break
        except (LexerError, ParserError) as e:
            fails.setdefault("C18:unlisted:written-file-unreadable", f"step {step}: request {payload!r}: {e} | file={got_file!r}")
            break
        fv = frame_violations(canonical(cur) if step else c0, got_file, req, mut)
        if fv:
            fails.setdefault("C18:unlisted:unmentioned-lines-changed", f"step {step}: request {payload!r} changed lines outside the named keys: {fv[:3]} | before={(canonical(cur) if step else c0)!r} | after={got_file!r}")
            break
        # CLI on its own copy of the file (JSON-expressible requests only; mutations have no CLI form)
        if cli_ok and not mut:
            try:
                js = json.dumps(payload, ensure_ascii=False, allow_nan=False)
            except (TypeError, ValueError):
                js = None
            if js is not None:
                code, out, err, exc = tools.cli(["write", cli_path, "--changes", js])
                if exc is not None or code != 0:
                    fails.setdefault("C18:unlisted:cli:refused", f"CLI write --changes {js} failed: exit={code} {err[-300:]!r} {exc!r}")
                    cli_ok = False
                else:
                    with open(cli_path, encoding="utf-8", newline="") as fh:
                        cgot = fh.read()
                    if cgot != want and not frame_violations(canonical(cur) if step else c0, cgot, req, mut):
                        try:
                            if model.nf_ast(parse(cgot)) == model.nf_ast(parse(want)):
                                cgot = want  # layout-only difference inside the named keys' own lines / moved comment indent
                        except Exception:
                            pass
                    if cgot != want:
                        fails.setdefault("C18:unlisted:cli:differs-from-frame-model", f"step {step}: CLI write --changes {js}: got={cgot!r} | want={want!r}")
                        cli_ok = False
        elif cli_ok and mut:
            with open(cli_path, "w", encoding="utf-8", newline="") as fh:
                fh.write(want)
        cur = expected
    unmentioned = [n for n in doc["body"] if not any(n.get("key") == k for req in case["requests"] for k, _ in req["items"])]
    nt = len(unmentioned) >= 3 and any(n["t"] != "assign" or n["value"]["v"] in ("list", "zone") or (n["value"]["v"] == "str" and not render.is_plain_word(n["value"]["s"]))
                                       for n in unmentioned)
    return [(s, d[:1800]) for s, d in fails.items()], nt


# ---------------------------------------------------------------------------------------------- generator (1)
def strategy():
    from hypothesis import strategies as hs

    op = hs.one_of(hs.just({"op": "delete"}), hs.just({"op": "null"}), hs.integers(0, len(VALUE_POOL) - 1).map(lambda i: {"op": "value", "i": i}),
                   hs.integers(0, len(VALUE_POOL) - 1).map(lambda i: {"op": "value", "i": i}), hs.integers(0, len(OBJECTS) - 1).map(lambda i: {"op": "object", "i": i}))
    meta_op = hs.one_of(hs.just({"op": "delete"}), hs.just({"op": "null"}), hs.integers(0, len(VALUE_POOL) - 1).map(lambda i: {"op": "value", "i": i}))

    def build(doc, picks):
        top = [n["key"] for n in doc["body"] if n["t"] == "assign"]
        blocked = {n.get("key") for n in doc["body"] if n["t"] != "assign"} | {"META"}
        mkeys = [k for k, _ in doc["meta"]]
        fresh = ["NEWKEY", "Z9", "added.key", "PATTERN", "REGEX"]  # (PATTERN/REGEX: the always-quoted keys)
        reqs = []
        for items, mut in picks:
            req = []
            used = set()
            for kind, idx, o, inner in items:
                if mut:
                    pool = mkeys + ["MNEW", "TYPE"]
                    key = pool[idx % len(pool)]
                    o2 = o if o["op"] != "object" else {"op": "null"}
                    if key not in used:
                        req.append([key, o2])
                        used.add(key)
                    continue
                if kind == 0 and top:
                    key = top[idx % len(top)]
                elif kind == 1:
                    # fresh top-level keys, among them names that META fields of this document carry (a bare key is a body
                    # key whatever META holds)
                    pool1 = fresh + [k for k in mkeys if k not in top and k not in blocked]
                    key = pool1[idx % len(pool1)]
                elif kind == 2:
                    pool = mkeys + ["MNEW"]
                    key = "META." + pool[idx % len(pool)]
                    o = o if o["op"] != "object" else {"op": "null"}
                elif kind == 3:
                    key = "META"
                    pool = mkeys + ["MNEW", "M2"]
                    seen, its = set(), []
                    for j, mo in inner:
                        mk = pool[j % len(pool)]
                        if mk not in seen:
                            seen.add(mk)
                            its.append([mk, mo])
                    o = {"op": "meta", "items": its} if its else {"op": "delete"}
                else:
                    key = fresh[idx % len(fresh)]
                if key in blocked and key != "META":
                    continue
                if key not in used:
                    used.add(key)
                    req.append([key, o])
            if req:
                reqs.append({"items": req, "mutations": bool(mut)})
        return {"doc": doc, "requests": reqs}

    item = hs.tuples(hs.integers(0, 3), hs.integers(0, 20), op, hs.lists(hs.tuples(hs.integers(0, 20), meta_op), min_size=1, max_size=3))
    picks = hs.lists(hs.tuples(hs.lists(item, min_size=1, max_size=3), hs.sampled_from([0, 0, 0, 1])), min_size=1, max_size=3)
    return hs.builds(build, model.document(depth=3, zones=True, comments=True, max_nodes=6, meta_zones=False, avoid=AVOID, empty_containers=False), picks)  # (cases without a request are skipped by the caller: a .filter() on a strategy this size makes Hypothesis build its multi-GB repr)


def shard(ctx: Ctx, sh: int, nshards: int, n: int) -> Stats:
    st = Stats()
    counter = [0]
    with scratch_dir() as root:
        if sh == 0:
            absent_cases(st)
        if sh == 1 % nshards:
            unreadable_cases(st, root)
        if sh == 2 % nshards:
            overlapping_requests(st, root)
        if sh == 3 % nshards:
            twin_cases(st, root)

        def one(case):
            if not case["requests"]:
                return
            counter[0] += 1
            fails, nt = check(case, root, counter[0] % 3 == 0)
            ops = sorted({(o["op"] if o["op"] != "value" else "value_" + VALUE_POOL[o["i"]]["v"]) for r in case["requests"] for _, o in r["items"]})
            forms = sorted({("mutations" if r.get("mutations") else "META." if k.startswith("META.") else "META{}" if k == "META" else "KEY") for r in case["requests"] for k, _ in r["items"]})
            st.case({"before": render.render_canonical(case["doc"]), "requests": [request_payload(r["items"]) for r in case["requests"]]},
                    nontrivial=nt, labels=["op_" + o for o in ops] + ["form_" + f for f in forms] + [f"steps_{len(case['requests'])}"],
                    key=[render.render_canonical(case["doc"]), case["requests"]])
            for sig, det in fails:
                st.fail(sig, case, det)

        drive(strategy(), one, ctx.shard_seed(sh, 91), n, chunk=100)  # (a document plus request picks: ~15 MB of Hypothesis state per example)
    return st


# ---------------------------------------------------------------------------------------------- generator (3): unreadable baseline
UNREADABLE = {
    "latin1-byte-in-string": b'===D===\nMETA:\n  TYPE::T\nKEEP::"caf\xe9"\nK::old\nBLOCK:\n  X::1\n===END===\n',
    "ff-byte-in-comment": b"===D===\n// \xff\xfe\nKEEP::1\nK::old\n===END===\n",
    "truncated-utf8-at-end": b"===D===\nKEEP::1\nK::old\n===END===\n\xe2\x82",
    "unparseable-text": b"===D===\nKEEP::[1,2\nK::old\n===END===\n",
}


def unreadable_cases(st: Stats, root: str):
    """Changes mode on a file whose bytes cannot be read as a document: there is nothing the request's unnamed keys could be
    kept from, so the only outcomes that keep every unnamed key are an error with the bytes untouched."""
    import json as _json

    for name, data in sorted(UNREADABLE.items()):
        for via in ("tool", "tool-mutations", "cli"):
            p = os.path.join(root, "unreadable.oct.md")
            with open(p, "wb") as fh:
                fh.write(data)
            try:
                if via == "cli":
                    code, out_, err_, exc = tools.cli(["write", p, "--changes", _json.dumps({"K": "new"})])
                    ok = code == 0 and exc is None
                elif via == "tool":
                    ok = tools.write(target_path=p, changes={"K": "new"}).get("status") == "success"
                else:
                    ok = tools.write(target_path=p, changes={"K": "new", "NEWKEY": [1]}, mutations={"NEWKEY": [1]}).get("status") == "success" if False else \
                        tools.write(target_path=p, changes={"NEWKEY": [1]}).get("status") == "success"
            except Exception as e:  # noqa: BLE001
                ok = False
                st.labels["unreadable_baseline_call_raised"] += 1
                del e
            after = open(p, "rb").read()
            st.case({"unreadable": name, "via": via}, nontrivial=True, labels=["unreadable_baseline"], key=(name, via))
            if ok or after != data:
                st.fail(f"C18:unlisted:changes-on-unreadable-file-rewrote-it:{via}", {"unreadable": name, "via": via},
                        f"changes request on a file that cannot be read ({name}) {'reported success' if ok else 'failed'} and the file now holds {after[:160]!r} "
                        f"(before: {data[:160]!r}): every key the request did not name is gone")


# ---------------------------------------------------------------------------------------------- generator (3b): values equal under ==
TWIN_OLD = ["1", "0", "1.0", "0.0", "true", "false", "2", "2.0", '"1"', '"true"']
TWIN_NEW = [True, False, 1, 0, 1.0, 0.0, 2, 2.0, "1", "true"]


def twin_cases(st: Stats, root: str):
    """A request that names a key with a value of another type that Python compares equal to the stored one (1 / true / 1.0,
    0 / false / 0.0, also text "1" over 1): "a value sets it" - the key must read back with the requested type, whatever else
    the request holds (nothing else, here)."""
    import json as _json

    from octave_mcp.core.parser import parse as _parse

    for old in TWIN_OLD:
        for new in TWIN_NEW:
            for site in ("K", "META.X", "BOTH"):
                for via in ("tool", "cli"):
                    case = {"twin": [old, repr(new), site, via]}
                    p = os.path.join(root, "twin.oct.md")
                    with open(p, "w", encoding="utf-8") as fh:
                        fh.write(f"===D===\nMETA:\n  TYPE::T\n  X::{old}\nK::{old}\nOTHER::keep\n===END===\n")
                    changes = {"K": new, "META.X": new} if site == "BOTH" else {site: new}
                    try:
                        if via == "cli":
                            code, out_, err_, exc = tools.cli(["write", p, "--changes", _json.dumps(changes)])
                            ok = code == 0 and exc is None
                        else:
                            ok = tools.write(target_path=p, changes=changes).get("status") == "success"
                        doc = _parse(open(p, encoding="utf-8").read())
                    except Exception as e:  # noqa: BLE001
                        st.fail(f"C18:unlisted:twin-value-request-failed:{via}", case, f"changes {changes!r} over {old}: {e!r}")
                        continue
                    got = {"K": next((n.value for n in doc.sections if getattr(n, "key", None) == "K"), "<absent>"), "META.X": doc.meta.get("X", "<absent>")}
                    st.case(case, nontrivial=True, labels=["twin_values"], key=(old, repr(new), site, via))
                    for k in changes:
                        g = got[k]
                        if not ok or type(g) is not type(new) or g != new:
                            st.fail(f"C18:unlisted:value-request-not-applied:{via}", case,
                                    f"changes {changes!r} on a file holding {k}::{old}: {'success' if ok else 'failure'} and {k} reads back as {g!r} ({type(g).__name__}), "
                                    f"requested {new!r} ({type(new).__name__})")


# ---------------------------------------------------------------------------------------------- generator (4): requests in flight together
def overlapping_requests(st: Stats, root: str):
    """Several changes requests on one file as tasks of one event loop (no base_hash): each names its own key, so every key
    of every successful request — and every line of the original — must be in the final file."""
    import asyncio

    from octave_mcp.mcp.write import WriteTool

    base = "===D===\nMETA:\n  TYPE::T\n  OWNER::alice\nKEEP::1\nNOTE::\"n\"\n===END===\n"
    for n, reqs in ((2, [{"A0": 1}, {"A1": [1, 2]}]), (3, [{"A0": None}, {"NOTE": {"$op": "DELETE"}}, {"META.OWNER": "bob"}]), (4, [{f"A{i}": i} for i in range(4)])):
        p = os.path.join(root, "overlap.oct.md")
        with open(p, "w", encoding="utf-8") as fh:
            fh.write(base)

        async def go():
            tool = WriteTool()
            return await asyncio.gather(*[tool.execute(target_path=p, changes=r) for r in reqs], return_exceptions=True)

        rs = asyncio.new_event_loop().run_until_complete(go())
        final = open(p, encoding="utf-8").read()
        st.case({"overlapping": n}, nontrivial=True, labels=["overlapping_requests"], key=n)
        missing = []
        for r, res in zip(reqs, rs):
            if isinstance(res, dict) and res.get("status") == "success":
                for k, v in r.items():
                    if isinstance(v, dict) and v.get("$op") == "DELETE":
                        if f"{k}::" in final:
                            missing.append(f"{k} still present")
                    elif k.startswith("META."):
                        if f"  {k[5:]}::{v}" not in final:
                            missing.append(f"{k} not set")
                    elif f"\n{k}::" not in final:
                        missing.append(f"{k} missing")
        if "KEEP::1" not in final:
            missing.append("KEEP lost")
        if missing:
            st.fail("C18:unlisted:overlapping-requests-undo-each-other", {"overlapping": n},
                    f"{n} changes requests in flight together all report success, but the final file lacks what some of them named: {missing} | final={final!r}")


# ---------------------------------------------------------------------------------------------- generator (2): Absent
def absent_cases(st: Stats):
    from octave_mcp import emit, parse
    from octave_mcp.core.ast_nodes import Absent, Assignment, Block, Document, InlineMap, ListValue, Section

    def build(pos, neighbours):
        A = Absent()
        before = [Assignment(key="B", value="b")] if neighbours & 1 else []
        after = [Assignment(key="C", value="c")] if neighbours & 2 else []
        doc = Document(name="D")
        doc.meta = {"TYPE": "T"}
        if pos == "assign":
            doc.sections = before + [Assignment(key="K", value=A)] + after
        elif pos == "blockchild":
            doc.sections = [Block(key="P", children=before + [Assignment(key="K", value=A)] + after)]
        elif pos == "sectionchild":
            doc.sections = [Section(section_id="1", key="S", children=before + [Assignment(key="K", value=A)] + after)]
        elif pos == "meta":
            doc.meta = {"TYPE": "T", "K": A, "Z": "z"}
            doc.sections = before + after
        elif pos == "metanested":
            doc.meta = {"TYPE": "T", "N": {"K": A, "Z": "z"}}
            doc.sections = before + after
        elif pos == "listitem":
            doc.sections = before + [Assignment(key="L", value=ListValue(items=["x", A, "y"]))] + after
        elif pos == "pairvalue":
            doc.sections = before + [Assignment(key="L", value=ListValue(items=[InlineMap(pairs={"K": A}), "y"]))] + after
        return doc

    for pos in ("assign", "blockchild", "sectionchild", "meta", "metanested", "listitem", "pairvalue"):
        for nb in (0, 1, 2, 3):
            st.evaluations += 1
            st.nontrivial_exact += 1
            st.labels["absent_" + pos] += 1
            case = {"absent": pos, "neighbours": nb}
            try:
                text = emit(build(pos, nb))
                d = parse(text)
            except Exception as e:
                st.fail(f"C18:unlisted:absent:{pos}:emit-or-reread-failed", case, f"Absent at {pos}: {e!r}")
                continue
            flat = json.dumps(model.nf_ast(d), default=repr)
            if '"K"' in flat or "Absent" in text or "Absent" in flat:
                st.fail(f"C18:unlisted:absent:{pos}:written-out", case, f"an Absent field at {pos} was written out: {text!r}")
            want_keys = (["B"] if nb & 1 else []) + (["C"] if nb & 2 else [])
            for k in want_keys:
                if f'"{k}"' not in flat:
                    st.fail(f"C18:unlisted:absent:{pos}:neighbour-lost", case, f"neighbour {k} lost next to an Absent field: {text!r}")
    # the four empty values side by side, in every order
    vals = {"E_STR": "", "E_LIST": ListValue(items=[]), "E_NULL": None, "E_ABSENT": Absent()}
    for order in itertools.permutations(vals):
        st.evaluations += 1
        st.nontrivial_exact += 1
        st.labels["four_empties_order"] += 1
        doc = Document(name="D")
        doc.sections = [Assignment(key=k, value=vals[k]) for k in order]
        case = {"empties": list(order)}
        try:
            d = parse(emit(doc))
        except Exception as e:
            st.fail("C18:unlisted:empties:emit-or-reread-failed", case, repr(e))
            continue
        got = {s.key: s.value for s in d.sections if isinstance(s, Assignment)}
        ok = (got.get("E_STR") == "" and isinstance(got.get("E_LIST"), ListValue) and got["E_LIST"].items == [] and "E_NULL" in got and got["E_NULL"] is None
              and "E_ABSENT" not in got and [s.key for s in d.sections if isinstance(s, Assignment)] == [k for k in order if k != "E_ABSENT"])
        if not ok:
            st.fail("C18:unlisted:empties:confused", case, f"'' / [] / null / absent are not kept apart: read back {got!r} from {emit(doc)!r}")
    if len(st.samples) < 2:
        st.samples.append({"absent_positions": 7, "neighbour_shapes": 4, "empties_orders": 24})


def check_case(case) -> list[Failure]:
    if "overlapping" in case:
        st = Stats()
        with scratch_dir() as root:
            overlapping_requests(st, root)
        return [f for fl in st.failures.values() for f in fl if f.case == case]
    if "twin" in case:
        st = Stats()
        with scratch_dir() as root:
            twin_cases(st, root)
        return [f for fl in st.failures.values() for f in fl if f.case == case]
    if "unreadable" in case:
        st = Stats()
        with scratch_dir() as root:
            unreadable_cases(st, root)
        return [f for fl in st.failures.values() for f in fl if f.case == case]
    if "absent" in case or "empties" in case:
        st = Stats()
        absent_cases(st)
        return [f for fl in st.failures.values() for f in fl if f.case == case]
    with scratch_dir() as root:
        fails, _ = check(case, root, True)
    return [Failure(s, case, d) for s, d in fails]


def shrink_candidates(case):
    if "doc" not in case:
        return
    rs = case["requests"]
    for i in range(len(rs)):
        if len(rs) > 1:
            yield {**case, "requests": rs[:i] + rs[i + 1:]}
    for i, r in enumerate(rs):
        for j in range(len(r["items"])):
            if len(r["items"]) > 1:
                yield {**case, "requests": rs[:i] + [{**r, "items": r["items"][:j] + r["items"][j + 1:]}] + rs[i + 1:]}
    for d in model.shrink_candidates(case["doc"]):
        if "empty_container" not in model.features(d):  # stay inside the generated domain
            yield {**case, "doc": d}


def run(ctx: Ctx) -> Stats:
    return run_sharded(shard, ctx, extra=(ctx.pick(150, 3000),))
