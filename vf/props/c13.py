"""C13 — what a compiled grammar can generate, the validator accepts.

Generator: schemas (plain field names) whose chains are decided by CONST / ENUM / TYPE[BOOLEAN] / TYPE[NUMBER] / DATE /
ISO8601 (with REQ/OPT, and with non-conflicting companions such as ENUM together with a CONST from it). The compiled grammar
is parsed with vf/gbnf.py and the field's rule is *derived*: exhaustively for CONST/ENUM/BOOLEAN and for NUMBER up to 3
integer / 3 fraction digits over the digit set {0,1,2,9}; by seeded random derivation plus calendar boundary texts for
DATE/ISO8601. `ws` is restricted to "" and " " (the statement fixes the writing FIELD::value).
Oracle: `===D===\\n<derived line>\\n===END===` is read without error, holds exactly that one assignment, and the field's own
ConstraintChain accepts the value that was read (also through octave_validate with the schema on the search path).
"""

from __future__ import annotations

import os
import random
import re

from vf import gbnf, tools
from vf.common import Ctx, Failure, Stats, drive, run_sharded, scratch_dir
from vf.props import c08, c12

PROP = "C13"
LEVEL = "exploration"
RULE = (
    "Hypothesis schemas of 1-3 plain-named fields with chains {REQ|OPT|none} + deciding member from: 13 CONST values, 12 ENUM pools "
    "(incl. prefix-related members PASS/PASS_WITH_NOTES, 1/10/16, number-like, reserved-word-like, multi-word, operator-bearing), "
    "TYPE[BOOLEAN], TYPE[NUMBER], DATE, ISO8601, plus companions (ENUM with a CONST taken from it in both orders, ENUM/CONST with "
    "TYPE[STRING]). Derivations of the compiled field rule: exhaustive for CONST/ENUM/BOOLEAN; NUMBER exhaustive for <=3 integer "
    "and <=3 fraction digits over digits {0,1,2,9} plus -0, 007, 400-digit integer; DATE/ISO8601 300 seeded random derivations "
    "plus calendar boundaries; ws in {'', ' '}. Oracle: the line is read without error as exactly one assignment of that field "
    "and the field's chain accepts the value read; octave_validate on an instance with that line does not name the field in an "
    "error [every 5th]. Non-trivial = derived value text is not a plain identifier; distinct by (chain, derived text)."
)
ASSUMPTIONS = [
    "derivations that put a tab or newline into ws are not asserted (the statement fixes the writing as FIELD::value)",
    "character classes are explored over representative characters, not all of Unicode",
]

NAMES = ["NAME", "STATUS", "COUNT", "KIND", "WHEN", "FLAG"]
CONSTS = ["X", "ACTIVE", "FINAL", "5", '"5"', "3.5", "true", "false", '"a b"', "x-y", "PASS", '"true"', '"a|b"', "false-positive", "null.reject", "vs.code",
          '"007"', '"01"', "true_ish", "nullable",
          # words that float() understands, and text with a run of blanks (a grammar post-processor must not touch literals)
          "INF", "Infinity", "NaN", "nan", "inf", "infinity", '"a  b"', '"BUILD  OK"', '"x   "']  # (CONST[null] with REQ is unsatisfiable)
ENUMS = [["A", "B"], ["DRAFT", "FINAL"], ["DRAFT", "ACTIVE", "DEPRECATED"], ["PASS", "PASS_WITH_NOTES", "FAIL"], ["1", "10", "16"], ["1", "2", "4", "8"],
         ["true", "false"], ["null", "none"], ["a b", "c"], ["x-y", "a.b"], ["a|b", "c"], ["ACTIVE", "ACTIVATING"],
         ['"01"', '"02"', '"12"'], ['"0755"', '"0644"'], ["false-positive", "true-negative"], ["null.reject", "vs.code", "ok"], ["1.0", "2.50"],
         ['"a  b"', "c"], ["inf", "nan", "ok"], ["Infinity", "NaN"]]
DECIDERS = ([f"CONST[{c}]" for c in CONSTS] + ["ENUM[" + ",".join(e) + "]" for e in ENUMS]
            + ["TYPE[BOOLEAN]", "TYPE[NUMBER]", "DATE", "ISO8601"] * 3)
CAL = ["2024-01-15", "2024-02-29", "2023-02-29", "2024-13-01", "2024-00-10", "2024-04-31", "0000-01-01", "9999-12-31", "1900-02-29", "2000-02-29"]
CAL_T = ["T10:30:00", "T10:30:00Z", "T10:30:00+02:00", "T23:59:59-05:30", "T25:00:00", "T10:61:00", "T10:30:60Z", "T10:30:00+25:00"]


def chains():
    from hypothesis import strategies as hs

    def build(pre, dec, companion):
        ch = ([pre] if pre else []) + [dec]
        m = re.match(r"ENUM\[(.*)\]", dec)
        if companion == 1 and m:
            first = m.group(1).split(",")[-1]
            if re.fullmatch(r"[A-Za-z_]+", first):
                ch = ch + [f"CONST[{first}]"]
        elif companion == 2 and m:
            first = m.group(1).split(",")[-1]
            if re.fullmatch(r"[A-Za-z_]+", first):
                ch = [f"CONST[{first}]"] + ch
        elif companion == 3 and (m or dec.startswith("CONST[")) and not re.search(r"\[(true|false|null|-?\d)", dec):  # (a non-string CONST with TYPE[STRING] is unsatisfiable)
            ch = ch + ["TYPE[STRING]"]
        return ch

    return hs.builds(build, hs.sampled_from([None, "REQ", "OPT"]), hs.sampled_from(DECIDERS), hs.integers(0, 5))


def deciding(chain) -> str:
    kinds = [re.match(r"[A-Z_0-9]+(\[BOOLEAN\]|\[NUMBER\]|\[STRING\])?", m).group(0) for m in chain]
    for k in ("CONST", "ENUM"):
        if k in kinds:
            return k
    for k in kinds:
        if k.startswith("TYPE") or k in ("DATE", "ISO8601"):
            return k
    return kinds[0]


def derivations(g, rule, kind, seed):
    """Yield derived line texts for the field rule."""
    if kind in ("CONST", "ENUM", "TYPE[BOOLEAN]", "TYPE[STRING]"):
        if kind == "TYPE[STRING]":
            return [], True
        out, trunc = gbnf.derive(g, rule, universe="ab1 -", max_rep=2, cap=5000)
        return out, trunc
    if kind == "TYPE[NUMBER]":
        out, _ = gbnf.derive(g, rule, universe="0129", max_rep=3, cap=120000)
        head = out[0].split("::")[0] if out else None
        if head:
            out += [f"{head}::-0", f"{head}::007", f"{head}::" + "9" * 400, f"{head}:: 0.000", f"{head}::-00.10"]
        # long derivations straight from the rule: every unbounded repetition taken 17 / 310 / 400 times (past the
        # exactness of a double, past the range of a double)
        rnd = random.Random(seed)
        for rep in (17, 310, 400):
            for _ in range(4):
                s = gbnf.sample(g, rule, rnd, universe="0129", max_rep=rep, ws=("", " "), stretch=True)
                if s is not None and len(s) < 5000:
                    out.append(s)
        return out, True
    rnd = random.Random(seed)
    out = []
    for _ in range(300):
        s = gbnf.sample(g, rule, rnd, universe="0123456789")
        if s is not None:
            out.append(s)
    # calendar boundaries, written exactly as the grammar derives them: the digit pattern of a sampled derivation is
    # replaced by boundary digits of the same shape (so quotes or any other surrounding text the rule produces are kept)
    shape = re.compile(r"\d{4}-\d{2}-\d{2}(T\d{2}:\d{2}:\d{2}(Z|[+-]\d{2}:\d{2})?)?")
    plain = next((s for s in out if shape.search(s) and "T" not in s.split("::", 1)[1]), None)
    if plain:
        m = shape.search(plain)
        pre, post = plain[:m.start()], plain[m.end():]
        for d in CAL:
            out.append(pre + d + post)
            if kind == "ISO8601":
                out.extend(pre + d + t + post for t in CAL_T)
    return out, True


def classify(kind, chain, derived, why) -> str:
    val = derived.split("::", 1)[1].strip() if "::" in derived else derived
    if kind in ("DATE", "ISO8601") and why in ("rejected-by-chain", "octave_validate-rejects"):
        # known: the grammar checks the digit pattern only, so it derives impossible dates/times/offsets
        from vf import constraints_ref as R

        inner = val[1:-1] if len(val) >= 2 and val[0] == val[-1] == '"' else None
        if inner is not None and (R.ref_date(inner) if kind == "DATE" else R.ref_iso8601(inner)) is not True:
            return f"C13:{kind}:grammar-derives-impossible-date"
    if kind in ("CONST", "ENUM") and (re.fullmatch(r"-?\d+(\.\d+)?([eE][+-]?\d+)?", val) or val in ("true", "false", "null", "True", "False", "None")):
        return f"C13:{kind}:member-reread-with-other-type"
    if kind in ("CONST", "ENUM") and not re.fullmatch(r"[A-Za-z_][A-Za-z0-9_]*", val):
        return f"C13:{kind}:member-not-a-plain-word"
    return f"C13:unlisted:{kind}:{why}"


def check(case, root, with_tool):
    from octave_mcp import parse
    from octave_mcp.core.ast_nodes import Assignment
    from octave_mcp.core.gbnf_compiler import GBNFCompiler
    from octave_mcp.core.lexer import LexerError
    from octave_mcp.core.parser import ParserError

    fields = [(f, ch) for f, ch in case["fields"]]
    sd = c12.api_schema(case["name"], fields)
    from octave_mcp.integrations.llama_cpp import schema_to_gbnf
    from octave_mcp.integrations.vllm import schema_to_vllm_grammar

    # the grammar as the compiler writes it and as the two integration helpers hand it to an inference engine
    sources = [("compiler", GBNFCompiler().compile_schema(sd, include_envelope=False)), ("llama_cpp", schema_to_gbnf(sd, include_envelope=False)),
               ("vllm", schema_to_vllm_grammar(sd, include_envelope=False))]
    fails: dict = {}
    n_eval, n_nt, samples = 0, 0, []
    for src, text in sources:
      g, probs = gbnf.check(text)
      if any(p[0] not in ("rule-name-charset",) for p in probs):
        return [("C13:unlisted:grammar-malformed", f"[{src}] grammar for plain names and non-REGEX chains is malformed: {probs[:3]} | {text!r}")], 0, 0, []
      for fname, ch in fields:
        kind = deciding(ch)
        rule = fname.lower()
        if src != "compiler" and (kind not in ("CONST", "ENUM", "TYPE[BOOLEAN]") or text == sources[0][1]):
            continue  # (the helpers' output is explored where the derivations are finite, and only when it differs from the compiler's text)
        if kind not in ("DATE", "ISO8601"):
            if (src, fname, tuple(ch)) in _DONE and not with_tool:
                continue
            _DONE.add((src, fname, tuple(ch)))
        derived, _ = derivations(g, rule, kind, case.get("seed", 0))
        chain = sd.fields[fname].pattern.constraints
        for line in derived:
            if "\t" in line.split("::", 1)[0] or "\n" in line:
                continue
            n_eval += 1
            val_text = line.split("::", 1)[1] if "::" in line else line
            nt = not re.fullmatch(r"\s*[A-Za-z_][A-Za-z0-9_]*", val_text)
            n_nt += 1 if nt else 0
            if nt and len(samples) < 2:
                samples.append({"chain": "∧".join(ch), "derived": line})
            doc_text = f"===D===\n{line}\n===END===\n"
            why = None
            try:
                d = parse(doc_text)
                assigns = [s for s in d.sections if isinstance(s, Assignment)]
                if len(d.sections) != 1 or len(assigns) != 1 or assigns[0].key != fname:
                    why = "not-one-assignment"
                    det = f"derived line {line!r} is read as {[(type(s).__name__, getattr(s, 'key', None)) for s in d.sections]}"
                else:
                    from octave_mcp.core.validator import Validator

                    v = Validator()._to_python_value(assigns[0].value)
                    res = chain.evaluate(v, fname)
                    if not res.valid:
                        why = "rejected-by-chain"
                        det = f"derived line {line!r} is read as {v!r} ({type(v).__name__}) and rejected by {'∧'.join(ch)}: {[e.code for e in res.errors]}"
            except (LexerError, ParserError) as e:
                why = "reader-error"
                det = f"derived line {line!r} is refused by the reader: {e}"
            except Exception as e:
                why = "crash"
                det = f"derived line {line!r}: {e!r}"
            if why:
                fails.setdefault(classify(kind, ch, line, why), f"[{src}] " + det + f" | rule={text.splitlines()[[l.split(' ::=')[0] for l in text.splitlines()].index(rule)] if rule in [l.split(' ::=')[0] for l in text.splitlines()] else ''!r}")
        if with_tool and derived and src == "compiler":
            # the same through octave_validate with the schema planted on the search path (first and last derivation)
            sdir = os.path.join(root, "specs", "schemas")
            os.makedirs(sdir, exist_ok=True)
            tf = [(f, [m for m in c]) for f, c in fields]
            if all(re.fullmatch(r"[A-Z_0-9]+(\[[A-Za-z0-9_,]+\])?", m) for _, c in tf for m in c):  # faithfully writable as schema text
                spath = os.path.join(sdir, case["name"].lower() + ".oct.md")
                with open(spath, "w", encoding="utf-8") as fh:
                    fh.write(c08.schema_text(case["name"], "IGNORE", tf))
                old = os.getcwd()
                os.chdir(root)
                try:
                    for line in (derived[0], derived[-1]):
                        inst = f"===I===\nMETA:\n  TYPE::T\n{case['name']}:\n  {line}\n===END===\n"
                        r = tools.validate(content=inst, schema=case["name"])
                        bad = [e for e in (r.get("validation_errors") or []) if (e.get("field") or "").endswith("." + fname)]
                        if r.get("status") != "success" or bad:
                            fails.setdefault(classify(kind, ch, line, "octave_validate-rejects"),
                                             f"octave_validate rejects derived line {line!r}: {bad or r.get('errors')}")
                finally:
                    os.chdir(old)
                    try:
                        os.unlink(spath)
                    except OSError:
                        pass
    return list(fails.items()), n_eval, n_nt, samples


def strategy():
    from hypothesis import strategies as hs

    fields = hs.lists(hs.tuples(hs.sampled_from(NAMES), chains()), min_size=1, max_size=3, unique_by=lambda t: t[0])
    return hs.builds(lambda f, s: {"name": "GEN_D", "fields": [[a, list(b)] for a, b in f], "seed": s}, fields, hs.integers(0, 10**6))


def shard(ctx: Ctx, sh: int, nshards: int, n: int) -> Stats:
    st = Stats()
    counter = [0]
    with scratch_dir() as root:
        def one(case):
            counter[0] += 1
            fails, n_eval, n_nt, samples = check(case, root, counter[0] % 5 == 0)
            st.evaluations += n_eval
            st.labels["schemas"] += 1
            for f, ch in case["fields"]:
                st.labels["decided_by_" + deciding(ch)] += 1
            for smp in samples:
                st.nontrivial_hashes.add(hash((smp["chain"], smp["derived"])))
                if len(st.samples) < st.MAX_SAMPLES:
                    st.samples.append(smp)
            st.labels["nontrivial"] += n_nt
            _NT[0] += n_nt
            for sig, det in fails:
                st.fail(sig, case, det[:1800])

        drive(strategy(), one, ctx.shard_seed(sh, 61), n, chunk=4000)
    st.notes.append("distinct_nontrivial counts at most two sampled non-identifier derivations per schema (a conservative lower bound); "
                    "label 'nontrivial' holds the total number of non-identifier derivations checked")
    return st


_NT = [0]
_DONE: set = set()


def check_case(case) -> list[Failure]:
    with scratch_dir() as root:
        fails, *_ = check(case, root, True)
    return [Failure(s, case, d[:1800]) for s, d in fails]


def shrink_candidates(case):
    fs = case["fields"]
    for i in range(len(fs)):
        if len(fs) > 1:
            yield {**case, "fields": fs[:i] + fs[i + 1:]}
    for i, (f, ch) in enumerate(fs):
        for j in range(len(ch)):
            if len(ch) > 1:
                yield {**case, "fields": fs[:i] + [[f, ch[:j] + ch[j + 1:]]] + fs[i + 1:]}


def run(ctx: Ctx) -> Stats:
    return run_sharded(shard, ctx, extra=(ctx.pick(120, 1500),))
