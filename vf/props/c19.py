"""C19 — tools cannot be steered outside the intended files.

(1) paths: a generated tree (sandbox + sibling `outside/` holding secrets; symlinks to a directory inside, to a directory
    outside, to an outside file, dangling, self-referential) x path strings built from segments (names with allowed /
    disallowed / compound / upper-case extensions, `.`, `..`, every symlink kind, empty segment, trailing slash, NUL, 300
    characters), absolute and relative to two working directories, handed to octave_write (content / changes / normalize /
    corrections_only), octave_validate(file_path), CLI write FILE, CLI normalize -o / seal -o, atomic_write_octave, under a
    file-operation trace (vf/fsx.py) with before/after snapshots of sandbox and outside tree.
(2) schema names: exhaustive over [A-Za-z0-9_./-] up to 3 characters plus generated longer / Unicode / newline-suffixed
    names, with decoy files planted next to the schema directories; every file opened must lie in a schema directory.
(3) frozen@sha256 references against a generated cache; (4) vocabulary SOURCE_URI strings against a generated base with a
    sibling directory whose name extends the base's name, links pointing outside, `..` chains.
"""

from __future__ import annotations

import hashlib
import itertools
import json
import os
import re
import shutil

from vf import fsx, tools
from vf.common import Ctx, Failure, Stats, drive, run_sharded, scratch_dir

PROP = "C19"
LEVEL = "exploration"
RULE = (
    "(1) Hypothesis path strings of 1-4 segments from a 41-segment pool (incl. ~ and $HOME spellings with HOME set to the outside tree) over a planted tree, absolute and relative to 2 cwds, x 12 entry "
    "points (octave_write content/changes/normalize/corrections_only, octave_validate file_path, atomic_write_octave, CLI write / "
    "normalize -o / seal -o). Oracle: a path with a '..' component, a symlink component (os.path.islink on any prefix, computed by the "
    "harness) or a disallowed extension => error, no open/create/replace/unlink boundary at all in the trace, both trees unchanged; "
    "for EVERY call: no mutating boundary and no snapshot change outside the sandbox, and no secret byte in the response. (2) "
    "exhaustive schema names of <=3 characters over 66 symbols (quick: <=2 plus a seeded sample of 20000 of length 3) + 40 special "
    "names: every open during load_schema_by_name lies in a schema directory. (3) 12 frozen@sha256 reference shapes x cache states: a "
    "returned path hashes to the digest and lies in the cache. (4) 60 SOURCE_URI strings: a returned path lies inside the base. "
    "Non-trivial = path with >=1 symlink or '..' segment, or a schema name that differs from an existing schema file only by "
    "case/suffix/separator; distinct by (entry, path string, cwd)."
)
ASSUMPTIONS = [
    "the scratch directory itself has no symbolic link in its absolute path (checked at start; otherwise every path would be refused)",
    "stat/lstat/readlink during validation are not 'reading a file'; open/mkdir/mkstemp/replace/unlink are",
]
SECRET = "TOP-SECRET-TOKEN-7f3a"
DOC = "===D===\nMETA:\n  TYPE::T\nK::v\n===END===\n"

SEGMENTS = ["a.oct.md", "b.md", "c.octave", "v.1.oct.md", "exists.oct.md", "d", "d/e", "new_dir", ".", "..", "ln_in", "ln_out", "ln_file.oct.md",
            "ln_secret.oct.md", "dangling.oct.md", "dangling_dir", "self_ln", "x.txt", "y.oct.md.bak", "z.OCT.MD", "A.MD", "noext", ".md", ".oct.md", "w.md ",
            "", "q.md/", "nul\x00.md", "L" * 300 + ".md", "secret.oct.md", "ünï.oct.md", "sp ace.md", "d/../a.md", "ln_in/../b.md",
            # shell-style spellings that a tool must take literally (HOME points at the outside tree while paths are checked)
            "~", "~/secret.oct.md", "~/sub/exists.oct.md", "~/new.oct.md", "$HOME/secret.oct.md", "${HOME}/new.oct.md", "~root/x.oct.md"]


def plant(base):
    root, outside = os.path.join(base, "sandbox"), os.path.join(base, "outside")
    for d in (root, os.path.join(root, "d", "e"), outside, os.path.join(outside, "sub")):
        os.makedirs(d, exist_ok=True)
    for p in (os.path.join(outside, "secret.oct.md"), os.path.join(outside, "sub", "exists.oct.md")):
        with open(p, "w") as fh:
            fh.write(f"===SECRET===\nTOKEN::\"{SECRET}\"\n===END===\n")
    for p in (os.path.join(root, "exists.oct.md"), os.path.join(root, "d", "exists.oct.md"), os.path.join(root, "d", "e", "exists.oct.md")):
        with open(p, "w") as fh:
            fh.write(DOC)
    links = {"ln_in": os.path.join(root, "d"), "ln_out": outside, "ln_file.oct.md": os.path.join(root, "exists.oct.md"),
             "ln_secret.oct.md": os.path.join(outside, "secret.oct.md"), "dangling.oct.md": os.path.join(outside, "not_there.oct.md"),
             "dangling_dir": os.path.join(outside, "no_such_dir"), "self_ln": "self_ln"}
    for where in (root, os.path.join(root, "d")):
        for name, tgt in links.items():
            lp = os.path.join(where, name)
            if not os.path.lexists(lp):
                os.symlink(tgt, lp)
    return root, outside


def classify_path(pstr: str, cwd: str):
    """(has_dotdot, has_symlink_component, bad_ext) computed by the harness, lexically + lstat, never resolving '..'."""
    import pathlib

    try:
        norm_parts = pathlib.PurePosixPath(pstr).parts  # what a path IS for the tools: '.' and empty segments collapse, '..' stays
    except Exception:
        norm_parts = tuple(pstr.split("/"))
    has_dd = any(p == ".." for p in norm_parts)
    absolute = pstr if pstr.startswith("/") else os.path.join(cwd, pstr)
    comps = [c for c in absolute.split("/") if c not in ("", ".")]
    cur = "/"
    has_link = False
    for c in comps:
        if c == "..":
            cur = os.path.dirname(cur.rstrip("/")) or "/"
            continue
        cur = os.path.join(cur, c)
        try:
            if os.path.islink(cur):
                has_link = True
                break
        except (ValueError, OSError):
            break
    last = norm_parts[-1] if norm_parts and norm_parts[-1] != "/" else ""
    suffix = pathlib.PurePosixPath(last).suffix if last not in ("", ".", "..") else ""  # ('.md' alone is a hidden file without suffix)
    bad_ext = suffix not in (".md", ".octave")  # .oct.md ends in .md; comparison is case-sensitive
    return has_dd, has_link, bad_ext


ENTRIES = ["write_content", "write_changes", "write_normalize", "write_dry", "validate_file", "atomic", "cli_write", "cli_normalize_o", "cli_seal_o",
           "write_content_bh", "write_changes_bh", "cli_write_bh"]


def call_entry(entry, pstr, root):
    """Returns (status, response_text). status in {'ok','error','raised:...'}"""
    src = os.path.join(root, "exists.oct.md")
    try:
        if entry == "write_content":
            r = tools.write(target_path=pstr, content=DOC)
        elif entry == "write_changes":
            r = tools.write(target_path=pstr, changes={"K": "changed"})
        elif entry == "write_content_bh":
            r = tools.write(target_path=pstr, content=DOC, base_hash="0" * 64)
        elif entry == "write_changes_bh":
            r = tools.write(target_path=pstr, changes={"K": "changed"}, base_hash=hashlib.sha256(DOC.encode()).hexdigest())
        elif entry == "write_normalize":
            r = tools.write(target_path=pstr)
        elif entry == "write_dry":
            r = tools.write(target_path=pstr, content=DOC, corrections_only=True)
        elif entry == "validate_file":
            r = tools.validate(file_path=pstr, schema="META")
        elif entry == "atomic":
            from octave_mcp.core.file_ops import atomic_write_octave

            r = atomic_write_octave(pstr, DOC, None)
        else:
            args = {"cli_write": ["write", pstr, "--content", DOC], "cli_write_bh": ["write", pstr, "--content", DOC, "--base-hash", "0" * 64], "cli_normalize_o": ["normalize", src, "-o", pstr], "cli_seal_o": ["seal", src, "-o", pstr]}[entry]
            code, out, err, exc = tools.cli(args)
            if exc is not None:
                return "raised:" + repr(exc), out + err
            return ("ok" if code == 0 else "error"), out + err
        st = r.get("status")
        return ("ok" if st == "success" else "error"), json.dumps(r, default=repr, ensure_ascii=False)
    except Exception as e:  # noqa: BLE001
        return "raised:" + repr(e), ""


def check_path(case, base):
    root, outside = os.path.join(base, "sandbox"), os.path.join(base, "outside")
    cwd = root if case["cwd"] == 0 else os.path.join(root, "d")
    pstr = case["path"] if not case["absolute"] else os.path.join(cwd, case["path"])
    fails = []
    if case["entry"] in ("cli_normalize_o", "cli_seal_o") and pstr == "":
        return [], False  # an empty -o value means 'print to stdout': no path is involved
    dd, ln, bad = classify_path(pstr, cwd)
    must_refuse = dd or ln or bad
    old = os.getcwd()
    old_home = os.environ.get("HOME")
    os.chdir(cwd)
    os.environ["HOME"] = outside  # "~" and "$HOME" name the outside tree for anything that expands them
    before = fsx.snapshot(root, outside)
    fsx.STATE.trace = []
    try:
        status, text = call_entry(case["entry"], pstr, root)
    finally:
        os.chdir(old)
        if old_home is None:
            os.environ.pop("HOME", None)
        else:
            os.environ["HOME"] = old_home
    trace = list(fsx.STATE.trace)
    after = fsx.snapshot(root, outside)
    where = f"{case['entry']}({pstr!r}) cwd={'sandbox' if case['cwd'] == 0 else 'sandbox/d'} [dotdot={dd} symlink={ln} bad_ext={bad}]"
    opens = [(n, i) for n, i in trace if n.startswith("open") or n in fsx.MUTATING]
    raised = status.startswith("raised")  # an exception is a refusal too (that tools return envelopes is C20); its effects are checked like any error
    if must_refuse:
        if status == "ok" and not (case["entry"] == "write_dry" and False):
            kind = "dotdot" if dd else "symlink" if ln else "extension"
            fails.append((f"C19:unlisted:{case['entry']}:not-refused:{kind}", f"{where}: returned success"))
        # cli_normalize_o / cli_seal_o legitimately read their INPUT file (exists.oct.md in the sandbox root)
        bad_ops = [(n, i) for n, i in opens if not (case["entry"] in ("cli_normalize_o", "cli_seal_o") and n == "open:r" and i.endswith("sandbox/exists.oct.md"))]
        if bad_ops:
            fails.append((f"C19:unlisted:{case['entry']}:file-operation-before-refusal", f"{where}: trace has {bad_ops[:4]} although the path must be refused before any file is read, created or replaced"))
        if after != before:
            fails.append((f"C19:unlisted:{case['entry']}:refused-path-changed-filesystem", f"{where}: {diff(before, after)}"))
    # for every call
    out_changes = [x for x in set(map(tuple, after)) ^ set(map(tuple, before)) if x[0].startswith("1:")]
    if out_changes:
        fails.append((f"C19:unlisted:{case['entry']}:outside-tree-changed", f"{where}: outside tree changed: {sorted(out_changes)[:3]}"))
    mut_out = [(n, i) for n, i in trace if (n in fsx.MUTATING) and "/outside" in i.split(" -> ")[-1]]
    if mut_out:
        fails.append((f"C19:unlisted:{case['entry']}:mutating-operation-outside-sandbox", f"{where}: {mut_out[:3]}"))
    if SECRET in text:
        fails.append((f"C19:unlisted:{case['entry']}:outside-bytes-in-response", f"{where}: the response contains the bytes of a file outside the sandbox"))
    # restore the sandbox if the call legitimately changed it
    if after != before:
        shutil.rmtree(root, ignore_errors=True)
        shutil.rmtree(outside, ignore_errors=True)
        plant(base)
    return fails, (dd or ln)


def diff(a, b):
    sa, sb = set(map(tuple, a)), set(map(tuple, b))
    return {"removed": [x[:2] for x in sorted(sa - sb)][:4], "added": [x[:2] for x in sorted(sb - sa)][:4]}


def path_strategy():
    from hypothesis import strategies as hs

    segs = hs.lists(hs.sampled_from(SEGMENTS), min_size=1, max_size=4).map("/".join)
    return hs.fixed_dictionaries({"kind": hs.just("path"), "entry": hs.sampled_from(ENTRIES), "path": segs, "absolute": hs.booleans(), "cwd": hs.integers(0, 1)})


def shard_paths(ctx: Ctx, sh: int, nshards: int, n: int) -> Stats:
    st = Stats()
    with scratch_dir() as base:
        if os.path.realpath(base) != os.path.abspath(base):
            st.harness_errors.append(f"scratch directory {base} has a symlink in its path")
            return st
        plant(base)
        fsx.install([base], None)

        def one(case):
            fails, nt = check_path(case, base)
            dd, ln, bad = classify_path(case["path"], "/x")
            st.case(case, nontrivial=nt, labels=["entry_" + case["entry"]] + (["dotdot"] if dd else []) + (["bad_ext"] if bad else []) + (["symlink_or_dotdot"] if nt else []))
            for sig, det in fails:
                st.fail(sig, case, det[:1500])

        drive(path_strategy(), one, ctx.shard_seed(sh, 19), n, chunk=4000)
    return st


# ---------------------------------------------------------------------------------------------- (2) schema names
ALPHA = "ABCDEFGHIJKLMNOPQRSTUVWXYZabcdefghijklmnopqrstuvwxyz0123456789_./-"
SPECIAL_NAMES = ["META\n", "META\r", "META\x00", "META ", " META", "META/", "/META", "./META", "../META", "..", ".", "", "META.oct.md", "meta", "Meta", "SKILL",
                 "skill", "SKILL_SCHEMA", "DEBATE_TRANSCRIPT", "debate_transcript", "../SECRET", "SECRET", "..%2fSECRET", "SUB/INNER", "sub/inner", "SUB\\INNER",
                 "ＭＥＴＡ", "MΕTA", "META\u200b", "A" * 300, "CON", "builtin/META", "../builtin/META", "schemas/META", "~", "$HOME", "*", "META*", "M?TA", "[M]ETA"]


def schema_dirs(cwd):
    import octave_mcp

    pkg = os.path.dirname(octave_mcp.__file__)
    return [os.path.realpath(p) for p in (os.path.join(pkg, "resources", "specs", "schemas"), os.path.join(pkg, "schemas", "builtin"),
                                          os.path.join(cwd, "specs", "schemas"), os.path.join(cwd, "src", "octave_mcp", "resources", "specs", "schemas"))]


def shard_names(ctx: Ctx, sh: int, nshards: int, sample3: int) -> Stats:
    import random

    from octave_mcp.schemas.loader import load_schema_by_name

    st = Stats()
    with scratch_dir() as base:
        cwd = os.path.join(base, "proj")
        sd = os.path.join(cwd, "specs", "schemas")
        os.makedirs(os.path.join(sd, "sub"))
        good = '===GEN===\nMETA:\n  TYPE::SCHEMA\n  VERSION::"1.0"\n---\nFIELDS:\n  NAME::["x"∧REQ]\n===END===\n'
        for p in (os.path.join(sd, "ab.oct.md"), os.path.join(sd, "AB.oct.md"), os.path.join(sd, "sub", "inner.oct.md"), os.path.join(cwd, "specs", "secret.oct.md"),
                  os.path.join(cwd, "secret.oct.md"), os.path.join(sd, "a.oct.md")):
            with open(p, "w") as fh:
                fh.write(good)
        allowed = schema_dirs(cwd)
        import octave_mcp

        fsx.install([base, os.path.dirname(octave_mcp.__file__)], None)
        old = os.getcwd()
        os.chdir(cwd)
        try:
            def names():
                yield from SPECIAL_NAMES
                for ln in (1, 2):
                    for t in itertools.product(ALPHA, repeat=ln):
                        yield "".join(t)
                if sample3 < 0:
                    for t in itertools.product(ALPHA, repeat=3):
                        yield "".join(t)
                else:
                    rnd = random.Random(ctx.shard_seed(sh, 23))
                    for _ in range(sample3 * nshards // nshards):
                        yield "".join(rnd.choice(ALPHA) for _ in range(3))
                    for _ in range(sample3 // 4):
                        yield "".join(rnd.choice(ALPHA) for _ in range(rnd.randint(4, 6)))

            for i, nm in enumerate(names()):
                if i % nshards != sh:
                    continue
                fsx.STATE.trace = []
                try:
                    r = load_schema_by_name(nm)
                except Exception as e:  # noqa: BLE001
                    r = "raised:" + repr(e)
                opens = [info for n, info in fsx.STATE.trace if n.startswith("open")]
                st.evaluations += 1
                near = nm.lower().strip("./ \n") in ("ab", "a", "meta", "skill", "secret", "inner", "sub/inner") and nm not in ("AB", "A", "META", "SKILL")
                if near:
                    st.nontrivial_exact += 1
                    st.labels["nontrivial"] += 1
                if len(st.samples) < 3 and near:
                    st.samples.append({"schema_name": nm, "opened": opens})
                for info in opens:
                    real = os.path.realpath(info[3:] if info.startswith("fd:") else info)
                    if not any(real.startswith(a + os.sep) for a in allowed):
                        st.fail("C19:unlisted:schema-name-opens-file-outside-schema-directories", {"kind": "schema_name", "name": nm},
                                f"load_schema_by_name({nm!r}) opened {real} which is in none of {allowed}")
                if isinstance(r, str) and r.startswith("raised") and not any(k in r for k in ("LexerError", "ParserError")):
                    st.labels["loader_raised"] += 1
        finally:
            os.chdir(old)
    return st


# ---------------------------------------------------------------------------------------------- (3) frozen refs, (4) source URIs
def frozen_and_uri(st: Stats):
    from pathlib import Path

    from octave_mcp.core.hydrator import resolve_hermetic_standard, validate_source_uri

    with scratch_dir() as base:
        cache = os.path.join(base, "cache")
        os.makedirs(cache)
        good = b"===STD===\nMETA:\n  TYPE::CAPSULE\n===END===\n"
        dg = hashlib.sha256(good).hexdigest()
        other = hashlib.sha256(b"other").hexdigest()
        with open(os.path.join(cache, dg[:16] + ".oct.md"), "wb") as fh:
            fh.write(good)
        with open(os.path.join(cache, other[:16] + ".oct.md"), "wb") as fh:
            fh.write(good)  # wrong content for that digest
        with open(os.path.join(base, "evil.oct.md"), "wb") as fh:
            fh.write(good)
        prefix_twin = dg[:16] + ("0" * 48 if dg[16:] != "0" * 48 else "1" * 48)  # same cache file name, different digest
        refs = ["frozen@sha256:" + dg, "frozen@sha256:" + dg.upper(), "frozen@sha256:" + other, "frozen@sha256:" + prefix_twin, "frozen@sha256:" + dg[:16],
                "frozen@sha256:" + dg + "0", "frozen@sha256:../evil" + "0" * 57, "frozen@sha256:" + "../" * 5 + dg[:49], "frozen@sha256:" + dg + "\n",
                "frozen@md5:" + dg[:32], "frozen@sha256:" + "g" * 64, "latest", "frozen@", "frozen@sha256:", "FROZEN@SHA256:" + dg]
        for ref in refs:
            st.evaluations += 1
            st.nontrivial_exact += 1
            st.labels["frozen_refs"] += 1
            try:
                p = resolve_hermetic_standard(ref, Path(cache))
            except Exception:
                continue
            m = re.fullmatch(r"frozen@sha256:([0-9a-fA-F]{64})", ref)
            real = os.path.realpath(str(p))
            if ref == "latest":
                if not real.startswith(os.path.realpath(cache) + os.sep):
                    st.fail("C19:unlisted:latest-resolves-outside-cache", {"kind": "frozen", "ref": ref}, f"{ref!r} -> {real}")
                continue
            if not m or hashlib.sha256(open(real, "rb").read()).hexdigest() != m.group(1).lower() or not real.startswith(os.path.realpath(cache) + os.sep):
                st.fail("C19:unlisted:frozen-ref-resolves-to-wrong-file", {"kind": "frozen", "ref": ref}, f"{ref!r} resolved to {real} whose bytes do not hash to the digest (or outside the cache)")
        # ---- a pin that verified once must be verified again: same-length tamper with the old mtime restored
        gp = os.path.join(cache, dg[:16] + ".oct.md")
        try:
            resolve_hermetic_standard("frozen@sha256:" + dg, Path(cache))
            stt = os.stat(gp)
            with open(gp, "wb") as fh:
                fh.write(good.replace(b"CAPSULE", b"CAPSULX"))
            os.utime(gp, ns=(stt.st_atime_ns, stt.st_mtime_ns))
            st.evaluations += 1
            st.nontrivial_exact += 1
            st.labels["frozen_refs"] += 1
            try:
                p2 = resolve_hermetic_standard("frozen@sha256:" + dg, Path(cache))
                if hashlib.sha256(open(str(p2), "rb").read()).hexdigest() != dg:
                    st.fail("C19:unlisted:frozen-ref-resolves-to-wrong-file", {"kind": "frozen", "ref": "tamper-same-size-same-mtime"},
                            "a frozen reference that verified once resolves again after the cache file was overwritten with same-length bytes and its mtime restored")
            except Exception:
                pass
            with open(gp, "wb") as fh:
                fh.write(good)
        except Exception:
            pass
        # ---- the pinned cache file re-encoded: the same text with other bytes is not what the digest pins
        variants = {"crlf": good.replace(b"\n", b"\r\n"), "one-crlf": good.replace(b"\n", b"\r\n", 1), "bom": b"\xef\xbb\xbf" + good, "no-final-newline": good.rstrip(b"\n"),
                    "trailing-blank": good.replace(b"CAPSULE\n", b"CAPSULE \n"), "nfd": good.replace(b"STD", "ST\u00c9".encode()).replace("\u00c9".encode(), "E\u0301".encode()),
                    "extra-newline": good + b"\n", "lone-cr": good.replace(b"\n", b"\r", 1)}
        for vname, data in sorted(variants.items()):
            if data == good:
                continue
            with open(gp, "wb") as fh:
                fh.write(data)
            st.evaluations += 1
            st.nontrivial_exact += 1
            st.labels["frozen_refs"] += 1
            try:
                p3 = resolve_hermetic_standard("frozen@sha256:" + dg, Path(cache))
                if hashlib.sha256(open(str(p3), "rb").read()).hexdigest() != dg:
                    st.fail("C19:unlisted:frozen-ref-resolves-to-wrong-file", {"kind": "frozen", "ref": "re-encoded:" + vname},
                            f"the cache file holds a re-encoded copy ({vname}) whose bytes do not hash to the pinned digest, and the reference still resolves to it")
            except Exception:
                pass
        with open(gp, "wb") as fh:
            fh.write(good)
        # ---- SOURCE_URI
        vb = os.path.join(base, "vocab")
        twin = os.path.join(base, "vocab-private")
        os.makedirs(os.path.join(vb, "sub"))
        os.makedirs(twin)
        for p in (os.path.join(vb, "ok.oct.md"), os.path.join(vb, "sub", "ok.oct.md"), os.path.join(twin, "keys.oct.md"), os.path.join(base, "top.oct.md")):
            with open(p, "wb") as fh:
                fh.write(good)
        os.symlink(twin, os.path.join(vb, "ln_twin"))
        os.symlink(os.path.join(twin, "keys.oct.md"), os.path.join(vb, "ln_keys.oct.md"))
        os.symlink(os.path.join(vb, "sub"), os.path.join(vb, "ln_sub"))
        os.symlink("/etc/passwd", os.path.join(vb, "ln_etc"))
        uris = ["ok.oct.md", "sub/ok.oct.md", "sub/../ok.oct.md", "../vocab/ok.oct.md", "../vocab-private/keys.oct.md", "../top.oct.md", "../../etc/passwd", "/etc/passwd",
                "ln_twin/keys.oct.md", "ln_keys.oct.md", "ln_sub/ok.oct.md", "ln_etc", "./ok.oct.md", "sub/./../../vocab-private/keys.oct.md", "", ".", "..", "../vocab",
                "../vocab-private", "sub/../../vocab-private/../vocab/ok.oct.md", "C:\\x", "c:evil", "ok.oct.md\x00", "%2e%2e/top.oct.md", "..\\top.oct.md", "~/x",
                "sub//ok.oct.md", "sub/ok.oct.md/", "nonexistent/../../top.oct.md", "ln_sub/../../top.oct.md", "ln_twin/../vocab/ok.oct.md", "ln_twin/.."]
        for base_path in (vb, vb + "/", os.path.join(vb, "sub", "..")):
            for u in uris:
                st.evaluations += 1
                st.nontrivial_exact += 1
                st.labels["source_uris"] += 1
                try:
                    p = validate_source_uri(u, Path(base_path))
                except Exception:
                    continue
                real = os.path.realpath(str(p))
                rb = os.path.realpath(vb)
                if not (real == rb or real.startswith(rb + os.sep)):
                    st.fail("C19:unlisted:source-uri-resolves-outside-base", {"kind": "uri", "uri": u, "base": base_path}, f"validate_source_uri({u!r}, {base_path!r}) returned {real}, outside {rb}")
        # ---- the same SOURCE_URIs read from a hydrated document's manifest: check_staleness() and `octave hydrate --check
        # --project-root` hash the file the URI names, so a URI whose real location is outside the allowed root must be answered
        # with ERROR and without a hash (the hash of an outside file is a leak of its content)
        from octave_mcp.core.hydrator import check_staleness
        from octave_mcp.core.parser import parse as _parse

        def hydrated(uri, h):
            return ("===HYDRATED_DOC===\nMETA:\n  TYPE::\"SPEC\"\n  VERSION::\"1.0.0\"\n\n§CONTEXT::SNAPSHOT[\"@demo/vocabulary\"]\n  ALPHA::\"first\"\n\n§SNAPSHOT::MANIFEST\n"
                    f"  SOURCE_URI::\"{uri}\"\n  SOURCE_HASH::\"{h}\"\n  HYDRATION_TIME::\"2024-01-01T00:00:00Z\"\n  REQUESTED_VERSION::\"unspecified\"\n  RESOLVED_VERSION::\"1.0.0\"\n\n===END===\n")

        good_hash = "sha256:" + hashlib.sha256(good).hexdigest()
        for allowed in (None, base):
            rootreal = os.path.realpath(allowed or vb)
            for u in uris:
                if '"' in u or "\\" in u or "\x00" in u or "\n" in u:
                    continue
                real = os.path.realpath(os.path.join(vb, u))
                outside = not (real == rootreal or real.startswith(rootreal + os.sep))
                for claimed in ("sha256:" + "0" * 64, good_hash):
                    st.evaluations += 1
                    st.labels["staleness_uris"] += 1
                    if outside:
                        st.nontrivial_exact += 1
                        st.labels["staleness_uri_outside_root"] += 1
                    text = hydrated(u, claimed)
                    case = {"kind": "staleness", "uri": u, "allowed": "parent" if allowed else "base", "hash": claimed[:12]}
                    try:
                        res = check_staleness(_parse(text), base_path=Path(vb), allowed_root=Path(allowed) if allowed else None)
                    except Exception as e:  # noqa: BLE001 - a refusal
                        res = []
                        st.labels["staleness_raised_" + type(e).__name__] += 1
                    for r in res:
                        st.labels["staleness_answer_" + str(r.status)] += 1
                        if outside and (r.status != "ERROR" or r.actual_hash is not None):
                            st.fail("C19:unlisted:staleness-check-reads-outside-root", case,
                                    f"check_staleness: SOURCE_URI {u!r} is really {real}, outside the allowed root {rootreal}, and is answered {r.status} actual_hash={r.actual_hash}")
                    dp = os.path.join(vb, "hydrated.oct.md")
                    with open(dp, "w", encoding="utf-8") as fh:
                        fh.write(text)
                    code, out, err, exc = tools.cli(["hydrate", dp, "--check", "--project-root", allowed or vb])
                    os.unlink(dp)
                    if outside and (code == 0 or "FRESH" in out or "STALE" in out):
                        st.fail("C19:unlisted:cli-staleness-check-reads-outside-root", case,
                                f"octave hydrate --check --project-root: SOURCE_URI {u!r} is really {real}, outside {rootreal}: exit={code} output={(out + err)[-200:]!r}")
        if len(st.samples) < 4:
            st.samples.append({"frozen_refs": refs[:4], "source_uris": uris[:6]})


# ---------------------------------------------------------------------------------------------- module interface
def shard_misc(ctx: Ctx, sh: int, nshards: int) -> Stats:
    st = Stats()
    frozen_and_uri(st)
    return st


def check_case(case) -> list[Failure]:
    k = case.get("kind")
    if k == "path":
        with scratch_dir() as base:
            plant(base)
            fsx.install([base], None)
            fails, _ = check_path(case, base)
        return [Failure(s, case, d) for s, d in fails]
    st = Stats()
    if k in ("frozen", "uri"):
        frozen_and_uri(st)
    else:
        ctx = Ctx(prop="C19", tier="quick", seed=1, workers=1)
        st = shard_names(ctx, 0, 1, 0)
    return [f for fl in st.failures.values() for f in fl if f.case == case]


def shrink_candidates(case):
    if case.get("kind") == "path":
        segs = case["path"].split("/")
        for i in range(len(segs)):
            if len(segs) > 1:
                yield {**case, "path": "/".join(segs[:i] + segs[i + 1:])}
        if case["absolute"]:
            yield {**case, "absolute": False}
        if case["cwd"]:
            yield {**case, "cwd": 0}


def run(ctx: Ctx) -> Stats:
    st = run_sharded(shard_paths, ctx, extra=(ctx.pick(500, 8000),))
    st.merge(run_sharded(shard_names, ctx, extra=(ctx.pick(20000, -1),)))
    st.merge(run_sharded(shard_misc, ctx, nshards=1))
    if not ctx.quick:
        st.exhaustive = True
        st.notes.append("schema names of <=3 characters over the 66-symbol alphabet enumerated completely (the exhaustive flag refers to this part)")
    return st
