"""C01 — canonicalisation is idempotent and its output is re-readable.

Generators: (i) model documents in canonical and lenient spellings, pushed through every canonicalising entry point
(Python API, octave_validate, octave_write + normalize mode, CLI normalize/validate/write); (ii) exhaustive token
sequences `K::<seq>` over a lexeme alphabet (everything the lenient reader accepts is a member of the domain).
Oracle: c1 = canonicalise(x) is accepted by the strict reader and canonicalise(c1) == c1 byte-for-byte.
"""

from __future__ import annotations

import collections
import itertools
import os
import re

from vf import docprop, model, tools
from vf.common import Ctx, Failure, Stats, run_sharded, scratch_dir

PROP = "C01"
LEVEL = "exploration"
RULE = (
    "(i) Hypothesis model documents (depth<=3, all value kinds, comments, zones, frontmatter, sentinel) x canonical and "
    "seeded lenient spellings through: emit(parse_with_warnings(x)) [every case]; octave_validate(content).canonical fed "
    "back; octave_write(content) then normalize mode (diff 'No changes', same hash, same bytes) and changes mode (DELETE of one top-level field, result again a fixed point); CLI normalize / validate "
    "--stdin / write --stdin via click's CliRunner [every 4th document]. (ii) every sequence of <=3 (thorough <=4) lexemes over "
    "a 32-lexeme alphabet, joined with and without spaces, as `K::<seq>` and (<=3 lexemes) as list content `K::[<seq>]`, kept when the lenient reader accepts it. Oracle: "
    "the canonical text is accepted by strict parse() and canonicalising it again returns identical bytes. Non-trivial: "
    "document of depth>=2 or with a list/expression/annotation/number/comment/zone value, or token sequence of >=2 lexemes "
    "that the reader accepts; distinct by input text."
)
ASSUMPTIONS = [
    "the domain is 'every input the canonicaliser accepts': inputs the reader rejects are counted, not asserted",
    "CLI commands are driven in-process through click.testing.CliRunner",
]

DOC_KW = dict(depth=3, zones=True, comments=True, max_nodes=5, meta_zones=True)
AVOID = frozenset({"comment_after_empty", "cr"})

LEXEMES = ["A", "b_c", "1", "-2.5", "1.0.0", "true", "null", '"q s"', '""', "$V", "[", "]", ",", "::", ":",
           "→", "->", "⊕", "+", "⧺", "~", "⇌", "vs", "∧", "&", "∨", "|", "§", "#", "@", "<x>", "1e400"]


SECTION_NUMBER_SPELLINGS = ["1", "02", "1.10", "2.50", "1e3", "2.", "-0", "007", "1.0", "10", "0.5", "1E2", "3.14159"]


def _errs():
    from octave_mcp.core.lexer import LexerError
    from octave_mcp.core.parser import ParserError

    return (LexerError, ParserError)


# ------------------------------------------------------------------------------------------------ core relation
def api_roundtrip(text: str, pipeline: str = "api"):
    """Returns ('rejected', None) if the lenient reader refuses text, else ('ok', c1) or ('fail', sig, detail)."""
    from octave_mcp import emit, parse
    from octave_mcp.core.parser import parse_with_warnings

    errs = _errs()
    try:
        d, _ = parse_with_warnings(text)
    except errs:
        return ("rejected", None)
    try:
        c1 = emit(d)
    except Exception as e:
        return ("fail", f"C01:unlisted:{pipeline}:emit-crash", f"emit raised {e!r} | input={text!r}")
    return check_canonical(c1, pipeline, text)


FILE_PIPELINES = {"write-normalize", "cli-normalize", "cli-normalize-o", "cli-write2", "cli-validate-file"}


def _universal(s: str) -> str:
    return s.replace("\r\n", "\n").replace("\r", "\n")


def classify(c1: str, kind: str, pipeline: str, second: str | None = None) -> str:
    """Known classes are narrow predicates over the canonical text AND the exact failure shape."""
    from octave_mcp import emit, parse

    if kind == "reread-rejected" and any(_RESERVED_KEY_LINE.fullmatch(x) for x in c1.split("\n")):
        return "C01:reserved-word-glued-to-number-becomes-a-key"
    if kind in ("reread-rejected", "not-idempotent"):
        if re.search(r"(?m)(?:::|[\[,]|^\s+|[→⊕⧺⇌∧∨@§])-?inf(?:$|::|[\],→⊕⧺⇌∧∨@])", c1):
            return "C01:nonfinite-number-emitted"
        if re.search(r"∧\]", c1):
            # a degenerate holographic pattern (constraint operator with nothing after it) is re-emitted from a token
            # reconstruction that does not re-read as the same value
            return "C01:degenerate-holographic-pattern-reconstruction"
        if re.search(r"(?m)^META:\n(?:  .*\n)*?  [A-Za-z_][\w.-]*::`{3,}", c1):
            return "C01:literal-zone-in-meta-emitted-inline"
        if "\r" in c1 and pipeline in FILE_PIPELINES:
            # a raw CR inside a quoted string, read back from a file through universal-newline translation:
            # predicted outcome = canonicalisation of the text with every CR turned into LF
            try:
                pred = emit(parse(_universal(c1)))
            except _errs():
                pred = None
            if kind == "reread-rejected" and pred is None:
                return "C01:cr-in-string-through-file"
            if kind == "not-idempotent" and pred is not None and second in (pred, pred + "\n"):
                return "C01:cr-in-string-through-file"
    if kind == "not-idempotent" and second is not None and _reserved_word_key_dropped(c1, second):
        return "C01:reserved-word-glued-to-number-becomes-a-key"
    if kind == "not-idempotent" and second is not None and _comment_moves_into_zone_only_block(c1, second):
        return "C01:comment-after-zone-only-block"
    if kind == "not-idempotent" and pipeline == "write-changes" and second is not None:
        a, b = c1.split("\n"), second.split("\n")
        if len(a) == len(b) and [x.strip() for x in a] == [x.strip() for x in b] and all(x.strip().startswith("//") for x, y in zip(a, b) if x != y):
            return "C01:comment-indent-after-changes-delete"
        # the deletion moved a comment directly behind an empty container's header, where the reader drops it (C02's known class)
        it = iter(a)
        removed = []
        ok = True
        for y in b:
            for x in it:
                if x == y:
                    break
                removed.append(x)
            else:
                ok = False
                break
        removed += list(it)
        if ok and removed and all(x.strip().startswith("//") for x in removed):
            return "C01:comment-behind-empty-container-after-changes-delete"
    return f"C01:unlisted:{pipeline}:{kind}"


def _comment_moves_into_zone_only_block(c1: str, second: str) -> bool:
    """The two texts differ only in the indentation of comment lines, and every such line follows (through comment lines
    only) the closing fence of a literal zone that is indented deeper than the comment is in c1."""
    a, b = c1.rstrip("\n").split("\n"), second.rstrip("\n").split("\n")  # (the CLI prints one more newline)
    if len(a) != len(b) or [x.strip() for x in a] != [x.strip() for x in b]:
        return False
    diffs = [i for i, (x, y) in enumerate(zip(a, b)) if x != y]
    if not diffs or not all(a[i].strip().startswith("//") for i in diffs):
        return False
    for i in diffs:
        j = i - 1
        while j >= 0 and a[j].strip().startswith("//"):
            j -= 1
        if j < 0 or not re.fullmatch(r" *`{3,}", a[j]):
            return False
        if len(a[j]) - len(a[j].lstrip(" ")) <= len(a[i]) - len(a[i].lstrip(" ")):
            return False
    return True


def _reserved_word_key_dropped(c1: str, second: str) -> bool:
    """The second text is the first one minus lines whose key is a reserved word (true:: / null: / vs::): a reserved word
    glued to a preceding number (1true, 2.5vs) is lexed as an identifier and becomes a key, which the emitter writes bare
    and the reader then takes for the literal / operator and drops."""
    a, b = c1.split("\n"), second.split("\n")
    if len(a) <= len(b):
        return False
    it = iter(a)
    removed = []
    for y in b:
        for x in it:
            if x == y:
                break
            removed.append(x)
        else:
            return False
    removed += list(it)
    return bool(removed) and all(_RESERVED_KEY_LINE.fullmatch(x) for x in removed)


# a line whose key is a reserved word, alone or followed by something that is not an identifier character (true::, vs:,
# true-2.5::, vs<x>:) — never an identifier that merely starts with one (nullable::)
_RESERVED_KEY_LINE = re.compile(r" *(?:true|false|null|vs)(?![A-Za-z0-9_])[^\s:]*(?:::.*|:)")


def _known_or(c1: str, second: str, sig: str) -> str:
    return "C01:comment-after-zone-only-block" if _comment_moves_into_zone_only_block(c1, second) else sig


def check_canonical(c1: str, pipeline: str, origin: str):
    from octave_mcp import emit, parse

    errs = _errs()
    try:
        d2 = parse(c1)
    except errs as e:
        return ("fail", classify(c1, "reread-rejected", pipeline),
                f"[{pipeline}] canonical text is rejected by the strict reader: {e} | canonical={c1!r} | input={origin!r}")
    except Exception as e:
        return ("fail", f"C01:unlisted:{pipeline}:reread-crash", f"[{pipeline}] strict reader crashed {e!r} | canonical={c1!r}")
    try:
        c2 = emit(d2)
    except Exception as e:
        return ("fail", f"C01:unlisted:{pipeline}:emit2-crash", f"[{pipeline}] second emit raised {e!r} | canonical={c1!r}")
    if c2 != c1:
        return ("fail", classify(c1, "not-idempotent", pipeline, c2),
                f"[{pipeline}] canonicalising the canonical text changes it | first={c1!r} | second={c2!r} | input={origin!r}")
    return ("ok", c1)


def tool_roundtrips(text: str, lenient: bool, root: str):
    """octave_validate / octave_write+normalize / CLI. Yields failures (sig, detail)."""
    out = []
    # ---- octave_validate
    r = tools.validate(content=text, schema="META")
    if r.get("status") == "success" and isinstance(r.get("canonical"), str):
        cv = r["canonical"]
        res = check_canonical(cv, "validate", text)
        if res[0] == "fail":
            out.append(res[1:])
        else:
            r2 = tools.validate(content=cv, schema="META")
            if r2.get("status") != "success" or r2.get("canonical") != cv:
                out.append((classify(cv, "not-idempotent", "validate-tool", r2.get("canonical") if isinstance(r2.get("canonical"), str) else None),
                            f"octave_validate of its own canonical output differs: {str(r2.get('canonical'))!r} vs {cv!r} errors={r2.get('errors')}"))
    # ---- octave_write then normalize mode
    path = os.path.join(root, "w.oct.md")
    if os.path.exists(path):
        os.unlink(path)
    w = tools.write(target_path=path, content=text, lenient=lenient)
    if w.get("status") == "success":
        with open(path, "rb") as fh:
            b1 = fh.read()
        res = check_canonical(b1.decode("utf-8"), "write", text)
        if res[0] == "fail":
            out.append(res[1:])
        n = tools.write(target_path=path)
        with open(path, "rb") as fh:
            b2 = fh.read()
        if n.get("status") != "success":
            out.append((classify(b1.decode("utf-8"), "reread-rejected", "write-normalize"),
                        f"normalize mode refuses the file octave_write just wrote: {n.get('errors')} | file={b1.decode('utf-8')!r}"))
        elif b2 != b1 or n.get("canonical_hash") != w.get("canonical_hash") or n.get("diff") != "No changes":
            out.append((classify(b1.decode("utf-8"), "not-idempotent", "write-normalize", b2.decode("utf-8")),
                        f"normalize mode changed a canonical file: diff={n.get('diff')!r} before={b1!r} after={b2!r}"))
        # ---- lenient normalize of the canonical file: the lenient path's pre-parse repairs have nothing to repair in it
        if b2 == b1:
            nl = tools.write(target_path=path, lenient=True)
            with open(path, "rb") as fh:
                b3 = fh.read()
            if nl.get("status") == "success" and (b3 != b1 or nl.get("canonical_hash") != w.get("canonical_hash")):
                out.append((classify(b1.decode("utf-8"), "not-idempotent", "write-normalize-lenient", b3.decode("utf-8")),
                            f"normalize mode with lenient=true changed a canonical file: diff={nl.get('diff')!r} before={b1!r} after={b3!r}"))
            if b3 != b1:
                with open(path, "wb") as fh:
                    fh.write(b1)
        # ---- the same canonical text stored with CRLF line endings: after octave_write(normalize) the file must be the
        #      canonical (LF) text whose hash is returned — a file the strict reader accepts
        if b"\r" not in b1:
            pcr = os.path.join(root, "crlf.oct.md")
            with open(pcr, "wb") as fh:
                fh.write(b1.replace(b"\n", b"\r\n"))
            ncr = tools.write(target_path=pcr)
            if ncr.get("status") == "success":
                with open(pcr, "rb") as fh:
                    bcr = fh.read()
                import hashlib as _h

                if bcr != b1 or _h.sha256(bcr).hexdigest() != ncr.get("canonical_hash"):
                    res = check_canonical(bcr.decode("utf-8"), "write-normalize-crlf", b1.decode("utf-8"))
                    out.append(res[1:] if res[0] == "fail" else (_known_or(b1.decode("utf-8"), bcr.decode("utf-8", "replace"), "C01:unlisted:write-normalize-crlf:file-differs-from-returned-hash"),
                                                                  f"normalize of a CRLF copy of a canonical file: file bytes {bcr[:60]!r}... do not hash to canonical_hash / differ from the canonical text"))
        # ---- changes mode: delete one top-level field; what octave_write leaves must again be a fixed point
        try:
            from octave_mcp import parse as _parse
            from octave_mcp.core.ast_nodes import Assignment as _A

            keys = [s_.key for s_ in _parse(b1.decode("utf-8")).sections if isinstance(s_, _A)]
            uniq = [k for k in keys if keys.count(k) == 1]
        except Exception:
            uniq = []
        if uniq:
            pc = os.path.join(root, "chg.oct.md")
            with open(pc, "wb") as fh:
                fh.write(b1)
            wc = tools.write(target_path=pc, changes={uniq[len(uniq) // 2]: {"$op": "DELETE"}})
            if wc.get("status") == "success":
                with open(pc, "rb") as fh:
                    bc = fh.read().decode("utf-8")
                res = check_canonical(bc, "write-changes", b1.decode("utf-8"))
                if res[0] == "fail":
                    out.append(res[1:])
        # ---- CLI on the canonical file
        code, so, se, exc = tools.cli(["normalize", path])
        if exc is not None:
            out.append(("C01:unlisted:cli-normalize:crash", f"CLI normalize raised {exc!r}"))
        elif code != 0:
            out.append((classify(b1.decode("utf-8"), "reread-rejected", "cli-normalize"),
                        f"CLI normalize refuses a canonical file: {se!r} | file={b1.decode('utf-8')!r}"))
        elif so != b1.decode("utf-8") + "\n":
            out.append((classify(b1.decode("utf-8"), "not-idempotent", "cli-normalize", so),
                        f"CLI normalize changes a canonical file: {so!r} vs {b1.decode('utf-8')!r}"))
        out_path = os.path.join(root, "n.oct.md")
        code, so, se, exc = tools.cli(["normalize", path, "-o", out_path])
        if code == 0 and exc is None:
            with open(out_path, "rb") as fh:
                b3 = fh.read()
            if b3 != b1:
                out.append((classify(b1.decode("utf-8"), "not-idempotent", "cli-normalize-o", b3.decode("utf-8")),
                            f"CLI normalize -o changes a canonical file: {b3!r} vs {b1!r}"))
    # ---- CLI validate --stdin / write --stdin on the raw input (strict reader: may legitimately refuse)
    code, so, se, exc = tools.cli(["validate", "--stdin"], input=text)
    if exc is not None:
        out.append(("C01:unlisted:cli-validate:crash", f"CLI validate raised {exc!r}"))
    elif code == 0 and "\n\nvalidation_status:" in so:
        cv = so.split("\n\nvalidation_status:")[0]
        res = check_canonical(cv, "cli-validate", text)
        if res[0] == "fail":
            out.append(res[1:])
    p2 = os.path.join(root, "c.oct.md")
    if os.path.exists(p2):
        os.unlink(p2)
    code, so, se, exc = tools.cli(["write", p2, "--stdin"], input=text)
    if exc is not None:
        out.append(("C01:unlisted:cli-write:crash", f"CLI write raised {exc!r}"))
    elif code == 0:
        with open(p2, "rb") as fh:
            cb = fh.read().decode("utf-8")
        res = check_canonical(cb, "cli-write", text)
        if res[0] == "fail":
            out.append(res[1:])
        code, so, se, exc = tools.cli(["write", p2, "--stdin"], input=cb)
        with open(p2, "rb") as fh:
            cb2 = fh.read().decode("utf-8")
        if code != 0 or cb2 != cb:
            out.append((classify(cb, "not-idempotent" if code == 0 else "reread-rejected", "cli-write2", cb2 if code == 0 else None),
                        f"CLI write of its own output: exit={code} {se!r} | {cb2!r} vs {cb!r}"))
    return out


_ROOT = {"dir": None, "n": 0}


STATS_EXTRA = collections.Counter()


def fence_inserted(text: str):
    """Up to two copies of a text that holds a literal zone, each with one extra line inside a zone that looks like that
    zone's fence at some other indentation. Whether such a line is content or closes the zone is the reader's decision; if
    the text is accepted at all, its canonical text must be a fixed point like any other (pure function of the text)."""
    import random
    import zlib

    lines = text.split("\n")
    idx = [i for i, ln in enumerate(lines) if re.fullmatch(r" *`{3,}[^`]*", ln)]
    if len(idx) < 2:
        return
    rnd = random.Random(zlib.crc32(text.encode("utf-8", "replace")))
    for _ in range(2):
        j = rnd.randrange(0, len(idx) - 1, 2) if len(idx) > 2 else 0
        a, b = idx[j], idx[j + 1]
        fence = re.search(r"`{3,}", lines[a]).group(0)
        out = list(lines)
        out.insert(rnd.randint(a + 1, b), " " * rnd.randrange(0, 9) + fence + rnd.choice(["", "", "", "x"]))
        yield "\n".join(out)


def oracle(doc, sp, text, info, with_tools=None):
    fails = []
    res = api_roundtrip(text)
    if res[0] == "rejected":
        # every rendering is a documented spelling: a refusal is C02/C03 territory, reported there; here it is outside the domain
        return []
    if res[0] == "fail":
        fails.append(res[1:])
    for m in fence_inserted(text):
        r2 = api_roundtrip(m, "zone-fence-inserted")
        STATS_EXTRA["fence_inserted"] += 1
        if r2[0] != "rejected":
            STATS_EXTRA["fence_inserted_accepted"] += 1
        if r2[0] == "fail":
            fails.append(r2[1:])
    _ROOT["n"] += 1
    if with_tools if with_tools is not None else (_ROOT["n"] % 4 == 0):
        with scratch_dir() as root:
            fails.extend(tool_roundtrips(text, sp["k"] != "canon", root))
    # de-duplicate by signature
    seen = {}
    for sig, det in fails:
        seen.setdefault(sig, det)
    return [(s, d[:1800]) for s, d in seen.items()]


def shard(ctx: Ctx, sh: int, nshards: int, per_shard: int) -> Stats:
    inside = sh % 8 == 7  # one shard in eight generates inside the known classes
    avoid = frozenset() if inside else AVOID
    STATS_EXTRA.clear()
    st = docprop.shard_impl(ctx, sh, per_shard, oracle, dict(DOC_KW, avoid=avoid), n_lenient=ctx.pick(1, 2))
    for k, v in STATS_EXTRA.items():
        st.labels["zone_" + k] += v
    return st


# ------------------------------------------------------------------------------------------------ token sequences
def _seq_text(tup, spaced: bool, bracket: bool = False) -> str:
    body = (" " if spaced else "").join(tup)
    return "===D===\nK::" + ("[" + body + "]" if bracket else body) + "\n===END===\n"


def shard_tokens(ctx: Ctx, sh: int, nshards: int, max_len: int, sample: int) -> Stats:
    import random

    st = Stats()
    n = len(LEXEMES)

    def run_one(tup, spaced, exact, bracket=False):
        text = _seq_text(tup, spaced, bracket)
        res = api_roundtrip(text, "tokens")
        acc = res[0] != "rejected"
        nt = acc and len(tup) >= 2
        if exact:
            st.evaluations += 1
            st.labels["tokseq_accepted" if acc else "tokseq_rejected"] += 1
            if nt:
                st.nontrivial_exact += 1
                if st.nontrivial_exact % 5003 == 1 and len(st.samples) < 3:
                    st.samples.append({"text": text})
        else:
            st.case({"text": text}, nontrivial=nt, labels=["tokseq5_accepted" if acc else "tokseq5_rejected"])
        if res[0] == "fail":
            st.fail(res[1], {"tokens": list(tup), "spaced": spaced, "bracket": bracket}, res[2])

    i = 0
    for ln in range(1, max_len + 1):
        for tup in itertools.product(LEXEMES, repeat=ln):
            i += 1
            if i % nshards != sh:
                continue
            run_one(tup, False, True)
            if ln > 1:
                run_one(tup, True, True)
            if ln <= 3:  # the same sequence as the content of a list: K::[<seq>]
                run_one(tup, False, True, True)
    # section headers whose number is spelled other than Python prints it, with and without a letter suffix, a name, or the id
    # repeated as the name (longer than the exhaustive bound, so listed): whatever id the reader settles on, the header it
    # writes must be readable and stable
    for num in SECTION_NUMBER_SPELLINGS:
        for suffix in ((), ("b",), ("A",)):
            for tail in ((), ("A",), (num,) + suffix, ("\n", "A", "::", "1")):
                for head in (("A",), ("A", "\n")):
                    i += 1
                    if i % nshards != sh:
                        continue
                    tup = head + ("§", num) + suffix + ("::",) + tail
                    run_one(tup, False, True)
                    run_one(tup, True, True)
                    st.labels["section_header_spellings"] += 2
    if sample:
        rnd = random.Random(ctx.shard_seed(sh, 5))
        for _ in range(sample // nshards):
            idx = rnd.randrange(n ** (max_len + 1))
            tup = tuple(LEXEMES[(idx // n**k) % n] for k in range(max_len + 1))
            run_one(tup, rnd.random() < 0.5, False)
    return st


# ------------------------------------------------------------------------------------------------ module interface
def check_case(case) -> list[Failure]:
    if "tokens" in case:
        res = api_roundtrip(_seq_text(tuple(case["tokens"]), case["spaced"], case.get("bracket", False)), "tokens")
        return [Failure(res[1], case, res[2])] if res[0] == "fail" else []
    if "text" in case:
        res = api_roundtrip(case["text"], "api")
        return [Failure(res[1], case, res[2])] if res[0] == "fail" else []
    text, info = docprop.render_case(case["doc"], case["sp"])
    return [Failure(s, case, d) for s, d in oracle(case["doc"], case["sp"], text, info, with_tools=True)]


def shrink_candidates(case):
    if "text" in case:
        return
    if "tokens" in case:
        t = case["tokens"]
        for i in range(len(t)):
            yield {**case, "tokens": t[:i] + t[i + 1:]}
        return
    yield from docprop.shrink_candidates(case)


def run(ctx: Ctx) -> Stats:
    st = docprop.run_docs(ctx, shard, ctx.pick(500, 5000))
    tok = run_sharded(shard_tokens, ctx, nshards=ctx.workers * 2, extra=(ctx.pick(3, 4), ctx.pick(0, 1_000_000)))
    st.merge(tok)
    st.exhaustive = True
    st.notes.append(f"token sequences of <= {ctx.pick(3, 4)} lexemes enumerated completely (the exhaustive flag refers to this "
                    "part); documents and longer sequences are sampled")
    return st
