"""C11 — schema repair changes only what it may, and logs every change.

Generator: generated schemas (ENUM pools with case structure incl. ambiguous ones, TYPE[NUMBER] with and without RANGE,
other kinds) planted on the search path x instances whose values are perturbed (case variants, unique/ambiguous
prefixes, numeric text in many notations, wrong kinds, missing/extra fields, literal zones) plus unrelated blocks that
must stay untouched; through repair(), octave_validate(fix=...) and octave_write(lenient=true, schema=...).
Oracle: structural diff of the normal form before/after reconciled with the repair log.
"""

from __future__ import annotations

import collections
import copy
import math
import os
from decimal import Decimal, InvalidOperation

from vf import docprop, model, render, tools
from vf.common import Ctx, Failure, Stats, drive, run_sharded, scratch_dir
from vf.props import c08

PROP = "C11"
LEVEL = "exploration"
RULE = (
    "Hypothesis: schema of 1-5 fields from 16 chains (ENUM[DRAFT,ACTIVE,DEPRECATED], ENUM[a,A], ENUM[Active,ACTIVE,INACTIVE], "
    "ENUM[Yes,No], ENUM[PASS,PASS_WITH_NOTES,FAIL], TYPE[NUMBER], TYPE[NUMBER]∧RANGE[1,10], TYPE[STRING], TYPE[BOOLEAN], CONST, "
    "REGEX, with REQ/OPT) x instance values from a 66-entry pool (case variants, prefixes, numeric text: 42, ' 7 ', +5, 1e5, "
    "1_000, 0x10, Arabic-Indic digits, 1e400, nan, inf, 25-digit decimals, 2**53+1, -0, 007, .5, 5.; wrong kinds; zones) x missing/"
    "extra fields x unrelated blocks/zones, in canonical and one lenient spelling; through repair(fix off/on, twice), "
    "octave_validate(fix off/on) and octave_write(lenient, schema). Oracle: fix off => normal form identical, log empty; fix on => "
    "same keys/nesting/order, every changed leaf is an ENUM case change to the unique case-insensitive member or a str->number "
    "change with Decimal(str(new)) == Decimal(old.strip()); multiset of changes == multiset of log entries (tier REPAIR, exact "
    "before/after); second repair is a no-op. Non-trivial = >=1 repairable and >=1 non-repairable perturbation in one "
    "document; distinct by (schema, instance text)."
)
ASSUMPTIONS = [
    "schema field names occur only as direct children of the schema's block (repair of same-named keys elsewhere is not asserted)",
    "lossless text-to-number = the decimal value of the new number's str() equals the decimal value of the stripped text",
]

CHAINS = [
    ["REQ", "ENUM[DRAFT,ACTIVE,DEPRECATED]"], ["OPT", "ENUM[a,A]"], ["ENUM[Active,ACTIVE,INACTIVE]"], ["OPT", "ENUM[Yes,No]"],
    ["REQ", "ENUM[PASS,PASS_WITH_NOTES,FAIL]"], ["REQ", "TYPE[NUMBER]"], ["OPT", "TYPE[NUMBER]", "RANGE[1,10]"], ["TYPE[NUMBER]"],
    ["REQ", "TYPE[STRING]"], ["OPT", "TYPE[BOOLEAN]"], ["REQ", "CONST[X]"], ["OPT", 'REGEX["^[a-z]+$"]'], ["REQ"], ["OPT"],
    ["OPT", "TYPE[STRING]", "ENUM[Yes,No]"], ["OPT", "ENUM[DRAFT,ACTIVE,DEPRECATED]", "TYPE[STRING]"],
]
FIELD_NAMES = ["STATUS", "LEVEL", "COUNT", "SCORE", "NAME", "FLAG", "KIND", "MODE"]
# (source text, python value) — strings are always written quoted so that they stay strings
STR_VALUES = ["active", "Active", "ACTIVE", "aCtIvE", "ACT", "act", "draft", "DRAFT", "deprecated", "a", "A", "yes", "YES", "Yes", "no", "pass", "PASS",
              "pass_with_notes", "Pass_With_Notes", "inactive", "INACTIVE", "x", "X", "abc", "ABC",
              "42", " 7 ", "+5", "-3", "1e5", "1E5", "1_000", "0x10", "١٢", "1e400", "-1e400", "nan", "inf", "-inf", "Infinity",
              "12345678901234567890.5", "0.10000000000000001", "9007199254740993", "-0", "-0.0", "1.0", "007", ".5", "5.", "3.14", "1e-3", "1,000", "12abc",
              "", " ", "５", " active", "ACTIVE ", "  draft ", "Yes ", " a", "pass\t"]  # (padded ENUM values: more than a case change)
OTHER_VALUES = [("true", True), ("false", False), ("5", 5), ("3.5", 3.5), ("[a,b]", ["a", "b"]), ("null", None), ("word", "word"), ("ACTIVE", "ACTIVE")]


def V_str(s):
    return {"v": "str", "s": s, "cls": "hostile"}  # always quoted


def value_V(idx):
    if idx < len(STR_VALUES):
        return V_str(STR_VALUES[idx])
    src, v = OTHER_VALUES[idx - len(STR_VALUES)]
    return c09_V(v)


def c09_V(v):
    if isinstance(v, bool):
        return {"v": "bool", "b": v}
    if v is None:
        return {"v": "null"}
    if isinstance(v, int):
        return {"v": "int", "i": str(v)}
    if isinstance(v, float):
        return {"v": "float", "f": repr(v)}
    if isinstance(v, list):
        return {"v": "list", "items": [c09_V(x) for x in v]}
    return {"v": "str", "s": v, "cls": "word" if render.is_plain_word(v) else "hostile"}


NVALS = len(STR_VALUES) + len(OTHER_VALUES)
ZONE = {"v": "zone", "content": "active\n42", "tag": None, "fence": "```", "lines": ["active", "42"]}


def instance_doc(case):
    kids = []
    for k, i in case["assigns"]:
        V = ZONE if i == "zone" else value_V(i)
        kids.append({"t": "assign", "key": k, "value": V, "lead": [], "trail": None})
    nested = case.get("nested") or []
    # half of the documents write their blocks with a routing target (NAME[->§TARGET]:): a repair below a block leaves the
    # block's own header alone
    tg = "AUDIT_LOG" if (len(case["assigns"]) + len(nested)) % 2 == 0 else None
    if nested:
        # occurrences of schema field names below the schema block (a sub-block) with perturbed values
        kids.append({"t": "block", "key": "SUB_1", "target": tg, "lead": [], "tail": [],
                     "kids": [{"t": "assign", "key": k, "value": ZONE if i == "zone" else value_V(i), "lead": [], "trail": None} for k, i in nested]})
    body = [{"t": "block", "key": case["name"], "target": tg, "kids": kids, "lead": [], "tail": []}]
    if nested and case.get("unrelated"):
        # ... and in a block the schema says nothing about
        body.append({"t": "block", "key": "ELSEWHERE", "target": "SELF" if tg else None, "lead": [], "tail": [],
                     "kids": [{"t": "assign", "key": k, "value": ZONE if i == "zone" else value_V(i), "lead": [], "trail": None} for k, i in nested]})
    if case.get("unrelated"):
        body.insert(0, {"t": "assign", "key": "TOPLEVEL", "value": V_str("active"), "lead": ["c"], "trail": None})
        body.append({"t": "block", "key": "OTHER", "target": None, "lead": [], "tail": [],
                     "kids": [{"t": "assign", "key": "UNRELATED_A", "value": V_str("active"), "lead": [], "trail": "keep"},
                              {"t": "assign", "key": "UNRELATED_N", "value": V_str("42"), "lead": [], "trail": None},
                              {"t": "zone", "zone": ZONE, "lead": []}]})
    meta = [["TYPE", {"v": "str", "s": "T", "cls": "word"}], ["STATUS", V_str("active")]]
    if case.get("unrelated"):
        meta.append(["NOTE", V_str("a long note " * 30)])  # (a text of several hundred characters)
    return {"name": "INSTANCE", "sentinel": None, "frontmatter": None, "meta": meta, "sep": False, "body": body, "trailing": []}


# ---------------------------------------------------------------------------------------------- diff + reconciliation
class Structural(Exception):
    pass


def leaf_changes(a, b, path=""):
    """a, b: nf structures. Returns [(path, key, old, new)]; raises Structural on any change that is not a scalar leaf change."""
    out = []
    if a[:5] != b[:5]:
        raise Structural(f"envelope/META/frontmatter changed: {model.first_diff(a[:5], b[:5])}")

    def nodes(xs, ys, p):
        if len(xs) != len(ys):
            raise Structural(f"{p}: {len(xs)} nodes became {len(ys)}")
        for x, y in zip(xs, ys):
            if x[0] != y[0] or x[1] != y[1]:
                raise Structural(f"{p}: node {x[:2]} became {y[:2]}")
            if x[0] == "assign":
                if x[2] != y[2]:
                    if x[2][0] in ("list", "zone", "holo", "pair", "map") or y[2][0] in ("list", "zone", "holo", "pair", "map"):
                        raise Structural(f"{p}.{x[1]}: non-scalar value changed: {x[2]!r} -> {y[2]!r}")
                    out.append((p, x[1], x[2], y[2]))
            elif x[0] == "block":
                if x[2] != y[2]:
                    raise Structural(f"{p}: target of block {x[1]} changed {x[2]!r} -> {y[2]!r}")
                nodes(x[3], y[3], p + "." + x[1])
            elif x[0] == "section":
                if x[2:4] != y[2:4]:
                    raise Structural(f"{p}: section header changed")
                nodes(x[4], y[4], p + ".§" + x[1])

    nodes(a[5], b[5], "")
    return out


def members_of(chain, kind):
    for m in chain:
        if m.startswith(kind + "["):
            return m[len(kind) + 1:-1]
    return None


def judge_change(fields: dict, name: str, path, key, old, new):
    """Return (ok, reason, expected_log_entry)."""
    # The repair walks the whole tree by field name (the mechanism the property names: _repair_ast_node), so an
    # occurrence of a schema field name below or outside the schema's block is judged by the same rules, not flagged.
    if key not in fields:
        return False, f"value of {path}.{key} changed although the schema has no field of that name", None
    chain = fields[key]
    if old[0] != "str":
        return False, f"{key}: a non-text value {old!r} was changed to {new!r}", None
    s = old[1]
    if new[0] == "str":
        t = new[1]
        enum = members_of(chain, "ENUM")
        if enum is None:
            return False, f"{key}: text changed {s!r}->{t!r} but the field has no ENUM", None
        mem = [x.strip() for x in enum.split(",")]
        if s.lower() != t.lower():
            return False, f"{key}: {s!r}->{t!r} is more than a change of letter case", None
        ci = [m for m in mem if m.lower() == s.lower()]
        if ci != [t]:
            return False, f"{key}: {s!r}->{t!r} but the case-insensitive matches in {mem} are {ci} (must be exactly the new value)", None
        return True, "", ("ENUM_CASEFOLD", s, t)
    if new[0] in ("int", "float"):
        if "TYPE[NUMBER]" not in chain:
            return False, f"{key}: text {s!r} became a number but the field is not TYPE[NUMBER]", None
        n = new[1] if new[0] == "int" else float(new[1])
        if isinstance(n, float) and not math.isfinite(n):
            return False, f"{key}: text {s!r} became a non-finite number", None
        try:
            want = Decimal(s.strip())
        except InvalidOperation:
            return False, f"{key}: text {s!r} is not a decimal number but was converted to {n!r}", None
        got = Decimal(str(n)) if new[0] == "int" else Decimal(repr(n))
        if want != got:
            return False, f"{key}: conversion of {s!r} to {n!r} is not lossless ({want} != {got})", None
        return True, "", ("TYPE_COERCION", s, str(n))
    return False, f"{key}: {old!r} became {new!r} (neither a case change nor a text-to-number conversion)", None


def classify(reason: str) -> str:
    if "is not lossless" in reason:
        return "C11:unlisted:coercion-not-lossless"
    return "C11:unlisted:" + "-".join(reason.split(":")[-1].split()[:4]).replace("'", "")


def reconcile(view, fields, name, before_nf, after_nf, log_entries, fails):
    """log_entries: list of (rule_id, before, after, tier)."""
    try:
        changes = leaf_changes(before_nf, after_nf)
    except Structural as e:
        fails.append((f"C11:unlisted:{view}:structure-changed", f"{view}: fix=true changed more than leaf values: {e}"))
        return
    want_log = collections.Counter()
    for path, key, old, new in changes:
        ok, reason, entry = judge_change(fields, name, path, key, old, new)
        if not ok:
            fails.append((f"{classify(reason)}", f"{view}: {reason}"))
        elif entry:
            want_log[entry] += 1
    got_log = collections.Counter((r, b, a) for r, b, a, t in log_entries)
    bad_tier = [e for e in log_entries if e[3] not in ("REPAIR", "RepairTier.REPAIR")]
    if bad_tier:
        fails.append((f"C11:unlisted:{view}:log-tier", f"{view}: repair log entries with tier other than REPAIR: {bad_tier[:3]}"))
    if not any(s.startswith("C11:unlisted:") and "log" not in s for s, _ in fails) and got_log != want_log:
        fails.append((f"C11:unlisted:{view}:log-mismatch", f"{view}: changes {sorted(want_log.elements())} but log {sorted(got_log.elements())}"))


def check(case, root):
    from octave_mcp import emit, parse
    from octave_mcp.core.repair import repair
    from octave_mcp.core.validator import Validator
    from octave_mcp.schemas.loader import load_schema_by_name

    name = case["name"]
    fields = {f: c for f, c in case["fields"]}
    sdir = os.path.join(root, "specs", "schemas")
    os.makedirs(sdir, exist_ok=True)
    spath = os.path.join(sdir, name.lower() + ".oct.md")
    with open(spath, "w", encoding="utf-8") as fh:
        fh.write(c08.schema_text(name, "REJECT", case["fields"]))
    doc = instance_doc(case)
    text, _ = docprop.render_case(doc, case["sp"])
    fails: list = []
    old_cwd = os.getcwd()
    os.chdir(root)
    try:
        sd = load_schema_by_name(name)
        if sd is None:
            return [("C11:unlisted:schema-not-loaded", "generated schema did not load")], False
        d0 = parse(text)
        nf0 = model.nf_ast(d0)[0]
        errs = Validator(schema=None).validate(d0, strict=False, section_schemas={sd.name: sd})
        # ---- fix off
        d1 = copy.deepcopy(d0)
        d1b, log1 = repair(d1, errs, fix=False, schema=sd)
        if model.nf_ast(d1b)[0] != nf0 or log1.repairs:
            fails.append(("C11:unlisted:repair:fix-off-changed", f"repair(fix=False) changed the document or logged: {[e.to_dict() for e in log1.repairs][:3]}"))
        # ---- fix on
        d2 = copy.deepcopy(d0)
        d2b, log2 = repair(d2, errs, fix=True, schema=sd)
        nf2 = model.nf_ast(d2b)[0]
        reconcile("repair", fields, name, nf0, nf2, [(e.rule_id, e.before, e.after, e.tier.value if hasattr(e.tier, "value") else str(e.tier)) for e in log2.repairs], fails)
        # ---- idempotence
        errs2 = Validator(schema=None).validate(d2b, strict=False, section_schemas={sd.name: sd})
        d3b, log3 = repair(copy.deepcopy(d2b), errs2, fix=True, schema=sd)
        if model.nf_ast(d3b)[0] != nf2 or log3.repairs:
            fails.append(("C11:unlisted:repair:second-repair-not-noop", f"repairing a repaired document changes it again: {[e.to_dict() for e in log3.repairs][:3]}"))
        changed = nf2 != nf0
        # ---- octave_validate
        r0 = tools.validate(content=text, schema=name, fix=False)
        r1 = tools.validate(content=text, schema=name, fix=True)
        if r0.get("status") == "success" and r1.get("status") == "success":
            n0 = model.nf_ast(parse(r0["canonical"]))[0]
            if n0 != nf0:
                fails.append(("C11:unlisted:validate:fix-off-changed", f"octave_validate(fix=false) changed content: {model.first_diff(nf0, n0)}"))
            if any("rule_id" in r for r in r0.get("repairs") or []):
                fails.append(("C11:unlisted:validate:fix-off-logged", "octave_validate(fix=false) reports schema repairs"))
            try:
                n1 = model.nf_ast(parse(r1["canonical"]))[0]
                reconcile("validate", fields, name, nf0, n1, [(r["rule_id"], r.get("before"), r.get("after"), r.get("tier")) for r in (r1.get("repairs") or []) if "rule_id" in r], fails)
            except Exception as e:
                fails.append(("C11:unlisted:validate:repaired-text-unreadable", f"canonical text after fix is unreadable: {e} | {r1.get('canonical')!r}"))
            # the same tool instance afterwards: fix off still changes nothing, fix on again logs the same, and the output
            # flags (compact) do not take the REPAIR records away
            r0b = tools.validate(content=text, schema=name, fix=False)
            if r0b.get("status") == "success" and r0b.get("canonical") != r0.get("canonical"):
                fails.append(("C11:unlisted:validate:fix-off-after-fix-on-changed", f"octave_validate(fix=false) after a fix=true call on the same text returns other content: {r0b.get('canonical')!r} vs {r0.get('canonical')!r}"))
            logs = lambda r: sorted((x.get("rule_id"), str(x.get("before")), str(x.get("after"))) for x in (r.get("repairs") or []) if "rule_id" in x)  # noqa: E731
            for view, kw in (("again", {}), ("compact", {"compact": True}), ("diff_only", {"diff_only": True})):
                r1b = tools.validate(content=text, schema=name, fix=True, **kw)
                if r1b.get("status") == "success" and logs(r1b) != logs(r1):
                    fails.append((f"C11:unlisted:validate:repair-log-differs:{view}", f"octave_validate(fix=true, {view}) reports REPAIR records {logs(r1b)}, the first fix=true call {logs(r1)}"))
        # ---- octave_write(lenient=true, schema)
        p = os.path.join(root, "w.oct.md")
        if os.path.exists(p):
            os.unlink(p)
        w = tools.write(target_path=p, content=text, schema=name, lenient=True)
        if w.get("status") == "success":
            try:
                nw = model.nf_ast(parse(open(p, encoding="utf-8", newline="").read()))[0]
                # octave_write(lenient) may additionally case-fold META.STATUS for the *builtin* META dict schemas only; not for a generated name
                reconcile("write", fields, name, nf0, nw, [(c["code"], c.get("before"), c.get("after"), c.get("tier")) for c in (w.get("corrections") or [])
                                                            if c.get("code") in ("ENUM_CASEFOLD", "TYPE_COERCION") or c.get("tier") == "REPAIR"], fails)
            except Exception as e:
                fails.append(("C11:unlisted:write:repaired-file-unreadable", f"{e}"))
        # ---- `octave validate --fix --schema NAME`: the CLI has no channel for a repair log, so whatever it prints must hold
        # the unchanged content (fix off) or only changes it also reports (it reports none)
        for flags in ([], ["--fix"]):
            code, out, err, exc = tools.cli(["validate", "--stdin", "--schema", name] + flags, input=text)
            if exc is not None:
                fails.append(("C11:unlisted:cli:raised", f"`octave validate {' '.join(flags)}` raised {exc!r}"))
                continue
            if "\nvalidation_status:" not in (out or ""):
                continue
            ctext = out.split("\n\nvalidation_status:")[0].rstrip("\n") + "\n"
            try:
                nc = model.nf_ast(parse(ctext))[0]
            except Exception as e:
                fails.append(("C11:unlisted:cli:printed-text-unreadable", f"{e} | {ctext!r}"))
                continue
            if nc != nf0:
                fails.append((f"C11:unlisted:cli:{'fix' if flags else 'plain'}-changed-content-without-log",
                              f"`octave validate {' '.join(flags)} --schema {name}` printed changed content and no repair record: {model.first_diff(nf0, nc)}"))
    finally:
        os.chdir(old_cwd)
        try:
            os.unlink(spath)
        except OSError:
            pass
    seen = {}
    for s, d_ in fails:
        seen.setdefault(s, f"{d_} | schema fields={case['fields']} | text={text!r}"[:1800])
    return list(seen.items()), changed


def strategy():
    from hypothesis import strategies as hs

    fields = hs.lists(hs.tuples(hs.sampled_from(FIELD_NAMES), hs.sampled_from(CHAINS)), min_size=1, max_size=5, unique_by=lambda t: t[0])
    val = hs.one_of(hs.integers(0, NVALS - 1), hs.integers(0, len(STR_VALUES) - 1), hs.just("zone"))
    assigns = hs.lists(hs.tuples(hs.sampled_from(FIELD_NAMES + ["EXTRA"]), val, hs.integers(0, 9), hs.integers(0, 1000)), min_size=1, max_size=6,
                       unique_by=lambda t: t[0])

    def build(n, f, a, u, seed, len_):
        fd = {k: c for k, c in f}
        keys = [k for k, _ in f]
        out = []
        for j, (k, i, targeted, t) in enumerate(a):
            if targeted < 7 and j < len(keys):
                k = keys[j]  # most assignments address a declared field ...
            if k in fd and targeted < 6 and i != "zone":
                pool = targeted_pool(fd[k])  # ... with a value near that field's constraint
                i = pool[t % len(pool)]
            out.append([k, i])
        seen, uniq = set(), []
        for k, i in out:
            if k not in seen:
                seen.add(k)
                uniq.append([k, i])
        nested = [[k, i] for k, i in uniq if k in fd][:3] if seed % 3 == 0 else []
        return {"name": n, "fields": [list(x) for x in f], "assigns": uniq, "unrelated": u, "nested": nested,
                "sp": {"k": "len", "seed": seed, "level": 0.5} if len_ else {"k": "canon"}}

    return hs.builds(build, hs.sampled_from(["GEN_R", "WIDGET"]), fields, assigns, hs.booleans(), hs.integers(0, 2**30), hs.booleans())


_NUMERIC_TEXT = [i for i, s in enumerate(STR_VALUES) if any(ch.isdigit() for ch in s) or s in ("nan", "inf", "-inf", "Infinity")]


def targeted_pool(chain) -> list[int]:
    enum = members_of(chain, "ENUM")
    if enum is not None:
        mem = [m.strip().lower() for m in enum.split(",")]
        hits = [i for i, s in enumerate(STR_VALUES) if s and any(m == s.lower() or m.startswith(s.lower()) for m in mem)]
        if hits:
            return hits
    if "TYPE[NUMBER]" in chain:
        return _NUMERIC_TEXT
    return list(range(len(STR_VALUES)))


def shard(ctx: Ctx, sh: int, nshards: int, n: int) -> Stats:
    st = Stats()
    with scratch_dir() as root:
        def one(case):
            fails, changed = check(case, root)
            fields = {f: c for f, c in case["fields"]}
            in_schema = [(k, i) for k, i in case["assigns"] if k in fields and i != "zone"]
            nt = changed and len(in_schema) >= 2
            st.case({"schema": case["fields"], "assigns": [(k, (STR_VALUES + [o[0] for o in OTHER_VALUES])[i] if i != "zone" else "zone") for k, i in case["assigns"]]},
                    nontrivial=nt, labels=["repaired" if changed else "unchanged", "sp_" + case["sp"]["k"]], key=case)
            for sig, det in fails:
                st.fail(sig, case, det)

        drive(strategy(), one, ctx.shard_seed(sh, 41), n, chunk=4000)
    return st


META_STATUS_MEMBERS = ["DRAFT", "ACTIVE", "DEPRECATED"]
META_STATUS_VALUES = ["draft", "Draft", "DRAFT", "dRaFt", "dra", "dep", "act", "Dr", "d", "A", "retired", " draft", "draft ", "active", "Deprecated", "DEPRECATE",
                      "", "ACTIVE ", "deprecated_", "draftdraft", "ACTIV"]


def meta_status_one(v: str, others: bool, root: str):
    """The packaged META schema (ENUM on META.STATUS) through octave_validate(fix) and octave_write(lenient): META.STATUS may
    change only to its unique case-insensitive member, with one ENUM_CASEFOLD REPAIR record; everything else stays."""
    from octave_mcp import parse

    fails = []
    text = ("===D===\nMETA:\n  TYPE::T\n  VERSION::\"1.0\"\n  STATUS::" + render.q(v) + ("\n  OWNER::" + render.q(v) if others else "") + "\nBODY:\n  STATUS::"
            + render.q(v) + "\n===END===\n")
    ci = [m for m in META_STATUS_MEMBERS if m.lower() == v.lower()]
    allowed = {v} | ({ci[0]} if len(ci) == 1 else set())

    def judge(view, canon, log):
        try:
            d = parse(canon)
        except Exception as e:
            fails.append((f"C11:unlisted:{view}:meta-status:unreadable", f"{e} | {canon!r}"))
            return
        got = d.meta.get("STATUS")
        if got not in allowed:
            fails.append((f"C11:unlisted:{view}:meta-status-replaced", f"{view}: META.STATUS {v!r} became {got!r}; the only permitted change is to the unique "
                          f"case-insensitive member {ci} | text={text!r}"))
        if others and d.meta.get("OWNER") != v:
            fails.append((f"C11:unlisted:{view}:meta-other-field-changed", f"{view}: META.OWNER {v!r} became {d.meta.get('OWNER')!r}"))
        folds = [(b, a) for r_, b, a in log if r_ == "ENUM_CASEFOLD"]
        if got != v and got in allowed and (v, got) not in folds:
            fails.append((f"C11:unlisted:{view}:meta-status-change-not-logged", f"{view}: META.STATUS {v!r}->{got!r} but the ENUM_CASEFOLD records are {folds} | text={text!r}"))
        if got == v and any(f[0] == v and f[1] != v for f in folds) and parse(canon).sections and False:
            pass

    r = tools.validate(content=text, schema="META", fix=True)
    if r.get("status") == "success":
        judge("validate", r["canonical"], [(x.get("rule_id"), x.get("before"), x.get("after")) for x in (r.get("repairs") or []) if "rule_id" in x])
    r0 = tools.validate(content=text, schema="META", fix=False)
    if r0.get("status") == "success":
        try:
            if parse(r0["canonical"]).meta.get("STATUS") != v:
                fails.append(("C11:unlisted:validate:meta-status:fix-off-changed", f"fix=false changed META.STATUS {v!r} | text={text!r}"))
        except Exception:
            pass
    p = os.path.join(root, "ms.oct.md")
    if os.path.exists(p):
        os.unlink(p)
    w = tools.write(target_path=p, content=text, schema="META", lenient=True)
    if w.get("status") == "success":
        judge("write", open(p, encoding="utf-8", newline="").read(), [(c.get("code"), c.get("before"), c.get("after")) for c in (w.get("corrections") or [])])
    return fails


def shard_meta(ctx: Ctx, sh: int, nshards: int) -> Stats:
    st = Stats()
    with scratch_dir() as root:
        k = 0
        for v in META_STATUS_VALUES:
            for others in (False, True):
                k += 1
                if k % nshards != sh:
                    continue
                fails = meta_status_one(v, others, root)
                st.case({"meta_status": v, "other_fields": others}, nontrivial=v.upper().strip() in META_STATUS_MEMBERS or any(m.startswith(v.upper()) for m in META_STATUS_MEMBERS if v),
                        labels=["meta_status_case"], key=(v, others))
                for sig, det in fails:
                    st.fail(sig, {"meta_status": v, "others": others}, det)
    return st


def check_case(case) -> list[Failure]:
    with scratch_dir() as root:
        if "meta_status" in case:
            return [Failure(s, case, d) for s, d in meta_status_one(case["meta_status"], case.get("others", False), root)]
        fails, _ = check(case, root)
    return [Failure(s, case, d) for s, d in fails]


def shrink_candidates(case):
    if "meta_status" in case:
        return
    for i in range(len(case["assigns"])):
        if len(case["assigns"]) > 1:
            yield {**case, "assigns": case["assigns"][:i] + case["assigns"][i + 1:]}
    for i in range(len(case["fields"])):
        if len(case["fields"]) > 1:
            yield {**case, "fields": case["fields"][:i] + case["fields"][i + 1:]}
    if case.get("unrelated"):
        yield {**case, "unrelated": False}
    if case["sp"]["k"] != "canon":
        yield {**case, "sp": {"k": "canon"}}


def run(ctx: Ctx) -> Stats:
    st = run_sharded(shard, ctx, extra=(ctx.pick(1200, 10000),))
    st.merge(run_sharded(shard_meta, ctx))
    return st
