"""C05 — literal zones pass through every pipeline byte-for-byte.

Generator: zone-heavy model documents: hostile zone content (tabs, NFD, backslash sequences, quotes, every operator and
alias, ::, ===END===, ---, //, shorter backtick runs, leading/trailing spaces, empty lines at start/middle/end), fence
length 3-6, several info tags, positions {assignment value at top / in block / in section / in META, bare block child
first/middle/last}, adjacent to every other node kind, in canonical and lenient spellings.
Oracle: after parse, parse(emit), octave_validate (fix off/on), octave_write (content, changes on another key,
normalize), seal_document and octave_eject(canonical; octave and json) the zones are the model's zones (content, tag,
fence) in the model's frame (same parents, same neighbours), and on the text level the lines between each pair of fences
are exactly the generated lines.
"""

from __future__ import annotations

import json
import os
import re

from vf import docprop, model, tools
from vf.common import Ctx, Failure, Stats, drive, scratch_dir

PROP = "C05"
LEVEL = "exploration"
RULE = (
    "Hypothesis zone-heavy model documents (zone weight x4; 1-6 zones per document at assignment/META/block/section positions "
    "and as bare block children; content lines over a hostile alphabet; fence 3-6; tags none/python/json5+x/sh/text) in "
    "canonical and lenient spellings, through parse, parse(emit), octave_validate(fix off, fix on), octave_write(content / "
    "changes on another key / normalize), seal_document+verify, CLI normalize / seal -o, octave_eject(canonical, octave|json) [tools on every 3rd case]. "
    "Oracle: the frame (kinds, keys, nesting, order, with every zone's (content, tag, fence) and every other value reduced to "
    "its kind) equals the model's frame, and the text lines between each fence pair equal the generated lines. Non-trivial = "
    "a zone with hostile content, or a zone below top level, or >=2 zones; distinct by rendered text."
)
ASSUMPTIONS = [
    "a content line may not itself look like a fence of equal or greater length (the format cannot hold it); such lines are not generated",
    "an empty block directly followed by a bare zone is the documented GH#259 spelling of 'KEY holds this zone' and is not generated",
]
DOC_KW = dict(depth=3, zones=True, comments=True, max_nodes=5, meta_zones=True)
AVOID = frozenset({"comment_after_empty", "cr"})
HOSTILE = re.compile(r"[\t\\\"`]|[^\x00-\x7f]|::|===|---|//|->|\+|~|\||&|#|\bvs\b|^ | $|^$", re.M)


# ------------------------------------------------------------------------------------------------ frames
def frame_model(doc):
    def val(V):
        if V["v"] == "zone":
            return ("zone", V["content"], V["tag"], V["fence"])
        return V["v"] if V["v"] in ("list", "holo") else "atom"

    def nodes(ns):
        out = []
        for n in ns:
            if n["t"] == "assign":
                out.append(("assign", n["key"], val(n["value"])))
            elif n["t"] == "zone":
                out.append(("assign", "", val(n["zone"])))
            elif n["t"] == "block":
                out.append(("block", n["key"], nodes(n["kids"])))
            else:
                out.append(("section", n["id"], n["name"], nodes(n["kids"])))
        return tuple(out)

    meta = tuple((k, "nested" if "nested" in v else val(v)) for k, v in doc["meta"])
    return (doc["name"], meta, nodes(doc["body"]))


def frame_ast(d):
    from octave_mcp.core.ast_nodes import Assignment, Block, Comment, HolographicValue, ListValue, LiteralZoneValue, Section

    def val(v):
        if isinstance(v, LiteralZoneValue):
            return ("zone", v.content, v.info_tag, v.fence_marker)
        if isinstance(v, ListValue):
            return "list"
        if isinstance(v, HolographicValue):
            return "holo"
        return "atom"

    def nodes(ns):
        out = []
        for n in ns:
            if isinstance(n, Comment):
                continue
            if isinstance(n, Assignment):
                out.append(("assign", n.key, val(n.value)))
            elif isinstance(n, Block):
                out.append(("block", n.key, nodes(n.children)))
            elif isinstance(n, Section):
                out.append(("section", n.section_id, n.key, nodes(n.children)))
            else:
                out.append(("other", type(n).__name__))
        return tuple(out)

    meta = tuple((k, "nested" if isinstance(v, dict) else val(v)) for k, v in d.meta.items())
    return (d.name, meta, nodes(d.sections))


def model_zones(doc):
    """Zones in document order as (fence, tag, lines)."""
    out = []
    for k, v in doc["meta"]:
        if "nested" not in v and v["v"] == "zone":
            out.append((v["fence"], v["tag"], model.zone_lines(v)))
    for _, n in model.walk_nodes(doc):
        if n["t"] == "assign" and n["value"]["v"] == "zone":
            out.append((n["value"]["fence"], n["value"]["tag"], model.zone_lines(n["value"])))
        elif n["t"] == "zone":
            out.append((n["zone"]["fence"], n["zone"]["tag"], model.zone_lines(n["zone"])))
    return out


_FENCE = re.compile(r"^ *(`{3,})(.*)$")


def text_zones(text: str):
    """Independent fence scanner: zones of a text in order as (fence, tag, lines). Frontmatter is skipped."""
    lines = text.split("\n")
    i = 0
    if lines and lines[0].strip() == "---":
        j = 1
        while j < len(lines) and lines[j].strip() != "---":
            j += 1
        i = j + 1 if j < len(lines) else 0
    out = []
    cur = None
    for ln in lines[i:]:
        m = _FENCE.match(ln)
        if cur is None:
            if m:
                cur = (m.group(1), m.group(2).strip() or None, [])
        else:
            if m and m.group(1) == cur[0] and m.group(2).strip() == "":
                out.append(cur)
                cur = None
            else:
                cur[2].append(ln)
    if cur is not None:
        out.append((cur[0], cur[1], cur[2] + ["<unterminated>"]))
    return out


def _cmp(stage, want_frame, want_zones, text=None, d=None):
    from octave_mcp import parse

    fails = []
    if d is None:
        try:
            d = parse(text)
        except Exception as e:
            return [(f"C05:unlisted:{stage}:unreadable", f"{stage}: output is not readable: {e} | text={text!r}")]
    got = frame_ast(d)
    if got != want_frame:
        fails.append((classify(stage, "frame", want_zones), f"{stage}: {model.first_diff(want_frame, got, 'frame')}" + (f" | text={text!r}" if text else "")))
    if text is not None:
        tz = text_zones(text)
        if tz != [(f, t, ls) for f, t, ls in want_zones]:
            fails.append((classify(stage, "text", want_zones, tz), f"{stage}: zone lines differ: want={want_zones!r} got={tz!r}"))
    return fails


def classify(stage, kind, want_zones, got_zones=None) -> str:
    if kind == "text" and got_zones is not None and len(got_zones) == len(want_zones):
        # known class: a zone holding exactly one empty line is written back as the empty zone (the AST keeps
        # content == "" for both); every other zone must be identical
        diff = [(w, g) for w, g in zip(want_zones, got_zones) if tuple(w) != tuple(g)]
        if diff and all(w[2] == [""] and g[2] == [] and w[0] == g[0] and w[1] == g[1] for w, g in diff):
            return "C05:one-empty-line-zone-becomes-empty"
    return f"C05:unlisted:{stage}:{kind}"


_N = {"n": 0}


def oracle(doc, sp, text, info, with_tools=None):
    from octave_mcp import emit, parse
    from octave_mcp.core.lexer import LexerError
    from octave_mcp.core.parser import ParserError, parse_with_warnings
    from octave_mcp.core.sealer import SealStatus, seal_document, verify_seal

    wf = frame_model(doc)
    wz = model_zones(doc)
    lenient = sp["k"] != "canon"
    try:
        d = parse_with_warnings(text)[0] if lenient else parse(text)
    except (LexerError, ParserError) as e:
        return [("C05:unlisted:read:rejected", f"reader rejects the document: {e} | text={text!r}"[:1800])]
    fails = _cmp("read", wf, wz, None, d)
    if fails:
        return [(s, (dd + f" | text={text!r}")[:1800]) for s, dd in fails]
    c1 = emit(d)
    fails += _cmp("emit", wf, wz, c1)
    # seal: the sealed document carries one more section (SEAL) at the end
    try:
        sd = seal_document(parse(c1))
        st_text = emit(sd)
        d3 = parse(st_text)
        got = frame_ast(d3)
        body = tuple(n for n in got[2] if not (n[0] == "section" and n[2] == "SEAL"))
        if (got[0], got[1], body) != wf:
            fails.append(("C05:unlisted:seal:frame", "seal: " + model.first_diff(wf, (got[0], got[1], body), "frame")))
        tz = text_zones(st_text)
        if tz != wz and classify("seal", "text", wz, tz).startswith("C05:unlisted"):
            fails.append(("C05:unlisted:seal:text", f"seal: zone lines differ: want={wz!r} got={tz!r}"))
        if verify_seal(d3).status != SealStatus.VERIFIED:
            fails.append(("C05:unlisted:seal:not-verified", f"sealed document with zones does not verify: {st_text!r}"))
    except (LexerError, ParserError):
        pass  # unreadable canonical text is already reported by the emit stage
    _N["n"] += 1
    if with_tools if with_tools is not None else (_N["n"] % 3 == 0):
        import zlib

        prof = ["STANDARD", "LENIENT", "ULTRA", "STRICT"][(zlib.crc32(text.encode("utf-8", "surrogatepass")) >> 3) % 4]  # (whatever a profile repairs, it is not zone content)
        for fix in (False, True):
            r = tools.validate(content=text, schema="META", fix=fix, profile=prof)
            if r.get("status") == "success" and isinstance(r.get("canonical"), str):
                fails += _cmp(f"validate-fix-{str(fix).lower()}", wf, wz, r["canonical"])
            else:
                fails.append(("C05:unlisted:validate:refused", f"octave_validate(fix={fix}) refuses: {r.get('errors')}"))
        # a zone line ending in a carriage return (a captured HTTP header, a .bat snippet) handed over as `content`: the CR is
        # zone content like any other character (the reader API and the tool agree on that, and the canonical text keeps it)
        from vf.props.c14 import crlf_in_zone

        tcr = crlf_in_zone(text) if "\r" not in text else None
        if tcr is not None:
            try:
                ccr = emit(parse_with_warnings(tcr)[0])
            except (LexerError, ParserError):
                ccr = None
            if ccr is not None and ccr.count("\r") == 1:
                r = tools.validate(content=tcr, schema="META")
                if r.get("status") == "success" and isinstance(r.get("canonical"), str) and r["canonical"] != ccr:
                    fails.append(("C05:unlisted:validate:cr-in-zone-content-changed", f"octave_validate(content) of a zone line ending in CR: canonical {r['canonical']!r} != emit(parse) {ccr!r}"))
                e = tools.eject(content=tcr, format="json", schema="META")
                if e.get("status") == "success" and "\\r" not in str(e.get("output")):
                    fails.append(("C05:unlisted:eject:cr-in-zone-content-changed", f"octave_eject(content, json) of a zone line ending in CR holds no CR: {str(e.get('output'))[:300]!r}"))
        with scratch_dir() as root:
            path = os.path.join(root, "z.oct.md")
            w = tools.write(target_path=path, content=text, lenient=lenient)
            if w.get("status") != "success":
                fails.append(("C05:unlisted:write:refused", f"octave_write refuses: {w.get('errors')}"))
            else:
                fails += _cmp("write-content", wf, wz, open(path, encoding="utf-8", newline="").read())
                w2 = tools.write(target_path=path, changes={"ZZ_OTHER": "v"})
                if w2.get("status") == "success":
                    t2 = open(path, encoding="utf-8", newline="").read()
                    wf2 = (wf[0], wf[1], wf[2] + (("assign", "ZZ_OTHER", "atom"),))
                    fails += _cmp("write-changes", wf2, wz, t2)
                else:
                    fails.append(("C05:unlisted:write-changes:refused", f"octave_write(changes) refuses: {w2.get('errors')}"))
                w3 = tools.write(target_path=path)
                if w3.get("status") == "success":
                    t3 = open(path, encoding="utf-8", newline="").read()
                    fails += _cmp("write-normalize", (wf[0], wf[1], wf[2] + (("assign", "ZZ_OTHER", "atom"),)), wz, t3)
            # the same text handed over inside one outer markdown code fence (W_MARKDOWN_UNWRAP): what is inside the zones of
            # the payload is still literal (only when the text has no frontmatter: the wrapper is for whole payloads)
            if not text.startswith("---") and not text.startswith("OCTAVE::"):
                pw = os.path.join(root, "wrapped.oct.md")
                ww = tools.write(target_path=pw, content="```octave\n" + text.rstrip("\n") + "\n```\n", lenient=lenient)
                if ww.get("status") == "success" and any(c.get("code") == "W_MARKDOWN_UNWRAP" for c in (ww.get("corrections") or [])):
                    fails += _cmp("write-markdown-wrapped", wf, wz, open(pw, encoding="utf-8", newline="").read())
            # CLI on the written file: normalize (stdout and -o) and seal -o
            if os.path.exists(path) and w.get("status") == "success":
                tfile = open(path, encoding="utf-8", newline="").read()
                tz_file = text_zones(tfile)
                code, out, err, exc = tools.cli(["normalize", path])
                if exc is None and code == 0 and text_zones(out) != tz_file:
                    fails.append(("C05:unlisted:cli-normalize:text", f"CLI normalize changed zone lines: {text_zones(out)!r} vs {tz_file!r}"))
                outp = os.path.join(root, "s.oct.md")
                code, out, err, exc = tools.cli(["seal", path, "-o", outp])
                if exc is None and code == 0 and os.path.exists(outp):
                    ts = open(outp, encoding="utf-8", newline="").read()
                    if text_zones(ts) != tz_file:
                        fails.append(("C05:unlisted:cli-seal:text", f"CLI seal -o changed zone lines: {text_zones(ts)!r} vs {tz_file!r}"))
        e = tools.eject(content=c1, schema="META", mode="canonical", format="octave")
        if isinstance(e.get("output"), str) and not e["output"].startswith("// Parse error"):
            fails += _cmp("eject-octave", wf, wz, e["output"])
        try:
            ej = tools.eject(content=c1, schema="META", mode="canonical", format="json")
            data = json.loads(ej["output"])
            want_triples = {(tuple_[1], tuple_[2], tuple_[0]) for tuple_ in [(f, "\n".join(ls), t) for f, t, ls in wz]}
            for z in _json_zones(data):
                if (z.get("content"), z.get("info_tag"), z.get("fence_marker")) not in want_triples:
                    fails.append(("C05:unlisted:eject-json:zone", f"eject json holds a zone the source does not have: {z!r} | want one of {sorted(want_triples, key=repr)!r}"))
                    break
        except TypeError:
            pass  # holographic values are not JSON-serialisable: a C20/C14 finding, not a zone matter
        except Exception as ex:
            fails.append(("C05:unlisted:eject-json:crash", f"eject json: {ex!r}"))
    seen = {}
    for s, dd in fails:
        seen.setdefault(s, dd)
    return [(s, dd[:1800]) for s, dd in seen.items()]


def _json_zones(x):
    if isinstance(x, dict):
        if x.get("__literal_zone__") is True:
            yield x
        else:
            for v in x.values():
                yield from _json_zones(v)
    elif isinstance(x, list):
        for v in x:
            yield from _json_zones(v)


def nontrivial(doc) -> bool:
    zs = model_zones(doc)
    if len(zs) >= 2:
        return True
    f = model.features(doc)
    if any(k.startswith("zone_at_") and k != "zone_at_top" for k in f):
        return True
    return any(HOSTILE.search("\n".join(ls)) for _, _, ls in zs if ls)


def labels(doc, sp, text, info):
    zs = model_zones(doc)
    out = [f"zones_{min(len(zs), 4)}{'+' if len(zs) >= 4 else ''}"]
    for fnc, tag, ls in zs:
        if ls == []:
            out.append("zone_empty")
        if ls == [""]:
            out.append("zone_one_blank_line")
        if ls and ls[0] == "":
            out.append("zone_leading_blank")
        if ls and ls[-1] == "":
            out.append("zone_trailing_blank")
        if any("\t" in l for l in ls):
            out.append("zone_tab")
        if any(re.search(r"[^\x00-\x7f]", l) for l in ls):
            out.append("zone_nonascii")
        if len(fnc) > 3:
            out.append("zone_long_fence")
    return sorted(set(out))


def shard(ctx: Ctx, sh: int, nshards: int, per_shard: int) -> Stats:
    model.ZONE_WEIGHT[0] = 4
    avoid = AVOID if sh % 8 == 7 else AVOID | {"zone_one_blank"}  # one shard in eight generates inside the known class
    from hypothesis import strategies as hs

    def ensure_zone(doc, z, where, pos):
        """Construction, not rejection: a document that came out without any zone gets one planted."""
        if model_zones(doc):
            return doc
        node = {"t": "assign", "key": "ZK", "value": z, "lead": [], "trail": None}
        body = list(doc["body"])
        blocks = [i for i, n in enumerate(body) if n["t"] == "block" and n["kids"]]
        if where and blocks:
            i = blocks[pos % len(blocks)]
            kids = list(body[i]["kids"])
            kids.insert(pos % (len(kids) + 1), {"t": "zone", "zone": z, "lead": []} if where == 2 else node)
            body[i] = {**body[i], "kids": kids}
        else:
            body.insert(pos % (len(body) + 1), node)
        return model.drop_zone_after_empty_block({**doc, "body": body})

    strat = hs.builds(ensure_zone, model.document(**dict(DOC_KW, avoid=avoid)), model.zone_value(avoid),
                      hs.integers(0, 2), hs.integers(0, 50))
    return docprop.shard_impl(ctx, sh, per_shard, oracle, {}, n_lenient=ctx.pick(1, 2),
                              nontrivial=nontrivial, label_fn=labels, strategy=strat)


def check_case(case) -> list[Failure]:
    text, info = docprop.render_case(case["doc"], case["sp"])
    return [Failure(s, case, d) for s, d in oracle(case["doc"], case["sp"], text, info, with_tools=True)]


shrink_candidates = docprop.shrink_candidates


def run(ctx: Ctx) -> Stats:
    return docprop.run_docs(ctx, shard, ctx.pick(400, 5000))
