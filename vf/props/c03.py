"""C03 — all lenient spellings converge on one canonical text, which is in the strict profile.

Generator: model documents, each rendered canonically and in k seeded lenient spellings (independent choice at every
rewrite site: ASCII aliases, spaces around ::, indent width per block, blank lines, trailing spaces, one-line vs
multi-line lists, optional/triple quotes, omitted ===END===, ...).
Oracle: (metamorphic) canonical text of every lenient spelling == canonical text of the canonical spelling, byte for byte,
through the Python API and through octave_write(lenient=true) file bytes; (validity predicate) the line-level strict
profile recogniser of vf/strict_profile.py accepts the canonical text.
"""

from __future__ import annotations

import os

from vf import docprop, model, tools
from vf.common import Ctx, Failure, Stats, scratch_dir
from vf.strict_profile import strict_profile

PROP = "C03"
LEVEL = "exploration"
RULE = (
    "Hypothesis model documents (depth<=3, every value kind, comments, zones, frontmatter) each rendered canonically and in "
    "2 (thorough 4) seeded lenient spellings with an independent choice at every rewrite site (aliases -> + ~ vs <-> | & #, "
    "spaces around ::, indent width 1/3/4/8 per block, blank lines, trailing spaces, multi-line lists with arbitrary item "
    "indent, quotes around plain words, triple quotes, omitted ===END===, bare multi-word values, NAME[args] constructors). "
    "Oracle: emit(parse_with_warnings(lenient)) == emit(parse(canonical)) byte-for-byte; the same through "
    "octave_validate.canonical and octave_write(lenient=true) file bytes [every 5th]; and the strict-profile recogniser (written from the property "
    "statement) accepts the result. Non-trivial = a lenient spelling that uses >=2 distinct rewrite kinds at >=3 sites; "
    "distinct by lenient text."
)
ASSUMPTIONS = [
    "only documented freedoms are rendered (DESIGN.md section 2.2); undocumented parser tolerances are not used",
    "YAML frontmatter and literal-zone content are opaque to the strict-profile recogniser",
]
DOC_KW = dict(depth=3, zones=True, comments=True, max_nodes=5, meta_zones=True)
AVOID = frozenset({"comment_after_empty"})

# freedoms the reader grants but C03's statement does not list: where comments that follow end up is layout, and with the
# fences in the key's column (GH#259) a following comment belongs to the enclosing block, not to the block holding the zone
NOT_LISTED_IN_C03 = ["zone_fence_at_key_column"]
_N = {"n": 0}


def canon_of(text: str, lenient: bool):
    from octave_mcp import emit, parse
    from octave_mcp.core.parser import parse_with_warnings

    d = parse_with_warnings(text)[0] if lenient else parse(text)
    return emit(d)


def oracle(doc, sp, text, info, with_tools=None):
    from octave_mcp.core.lexer import LexerError
    from octave_mcp.core.parser import ParserError

    fails = []
    ctext, _ = docprop.render_case(doc, {"k": "canon"})
    try:
        c0 = canon_of(ctext, False)
    except (LexerError, ParserError):
        return []  # the conservative spelling is refused: reported by C02, outside this relation's domain
    if sp["k"] == "canon":
        for rule, ln, det in strict_profile(c0)[:3]:
            fails.append((f"C03:unlisted:profile:{rule}", f"canonical text violates the strict profile at line {ln}: {det} | canonical={c0!r}"))
        return [(s, d[:1800]) for s, d in fails]
    try:
        c1 = canon_of(text, True)
    except (LexerError, ParserError) as e:
        return [("C03:unlisted:lenient-spelling-rejected", f"documented lenient spelling refused: {e} | used={info['used']} | text={text!r}"[:1800])]
    if c1 != c0:
        fails.append(("C03:unlisted:no-convergence",
                      f"lenient spelling canonicalises differently | used={info['used']} | lenient={text!r} | got={c1!r} | want={c0!r}"))
    _N["n"] += 1
    if with_tools if with_tools is not None else (_N["n"] % 5 == 0):
        rv = tools.validate(content=text, schema="META")
        if rv.get("status") == "success" and rv.get("canonical") != c0:
            fails.append(("C03:unlisted:validate-no-convergence",
                          f"octave_validate.canonical of a lenient spelling differs | used={info['used']} | lenient={text!r} | got={rv.get('canonical')!r} | want={c0!r}"))
        with scratch_dir() as root:
            path = os.path.join(root, "x.oct.md")
            w = tools.write(target_path=path, content=text, lenient=True)
            if w.get("status") != "success":
                fails.append(("C03:unlisted:write-lenient-rejected", f"octave_write(lenient=true) refuses the spelling: {w.get('errors')} | text={text!r}"))
            else:
                with open(path, "rb") as fh:
                    fb = fh.read().decode("utf-8")
                if fb != c0:
                    fails.append(("C03:unlisted:write-no-convergence",
                                  f"octave_write(lenient=true) wrote different bytes | used={info['used']} | lenient={text!r} | file={fb!r} | want={c0!r}"))
                for rule, ln, det in strict_profile(fb)[:2]:
                    fails.append((f"C03:unlisted:profile:{rule}", f"written file violates the strict profile at line {ln}: {det}"))
    seen = {}
    for s, d in fails:
        seen.setdefault(s, d)
    return [(s, d[:1800]) for s, d in seen.items()]


def _nontrivial_sp(doc, sp, text, info):
    if sp["k"] == "canon":
        return []
    kinds = [k for k in info["used"]]
    sites = sum(info["used"].values())
    return ["multi_kind_multi_site"] if (len(kinds) >= 2 and sites >= 3) else []


def shard(ctx: Ctx, sh: int, nshards: int, per_shard: int) -> Stats:
    from vf.common import drive

    st = Stats()
    counter = [0]
    avoid = frozenset() if sh % 8 == 7 else AVOID

    def one(doc):
        i = counter[0]
        counter[0] += 1
        for sp in docprop.spellings_for(i, ctx.shard_seed(sh), ctx.pick(2, 4), curly=False):
            if sp["k"] != "canon":
                sp = {**sp, "deny": NOT_LISTED_IN_C03}
            text, info = docprop.render_case(doc, sp)
            nt = bool(_nontrivial_sp(doc, sp, text, info))
            labels = ["sp_" + sp["k"]] + ["used_" + k for k in info["used"]] + (sorted(model.features(doc)) if sp["k"] == "canon" else [])
            fails = oracle(doc, sp, text, info)
            st.case({"text": text, "used": info["used"]}, nontrivial=nt, labels=labels, key=text)
            for sig, det in fails:
                st.fail(sig, {"doc": doc, "sp": sp}, det)

    drive(model.document(**dict(DOC_KW, avoid=avoid)), one, ctx.shard_seed(sh, 11), per_shard)
    return st


def check_case(case) -> list[Failure]:
    text, info = docprop.render_case(case["doc"], case["sp"])
    return [Failure(s, case, d) for s, d in oracle(case["doc"], case["sp"], text, info, with_tools=True)]


def shrink_candidates(case):
    for d in model.shrink_candidates(case["doc"]):
        yield {**case, "doc": d}
    if case["sp"]["k"] != "canon" and case["sp"].get("level", 0.6) > 0.3:
        yield {**case, "sp": {**case["sp"], "level": 0.3}}


def run(ctx: Ctx) -> Stats:
    return docprop.run_docs(ctx, shard, ctx.pick(500, 6000))
