"""C08 — validator verdicts follow the documented constraint semantics.

(A) constraint programs x values: every chain of <=2 members over a 60-member pool (all 13 kinds with parameter
    pools) x a ~150-value boundary pool, exhaustively, all permutations; chains of 3-4 members sampled with Hypothesis.
    Oracles: (a) hand-written reference evaluator (vf/constraints_ref.py) on the sub-domain the documentation fixes;
    (b) laws over the implementation's own single-member verdicts: chain valid <=> no declared conflict and every member
    valid alone; verdict invariant under permutation; a declared conflict rejects every value; the failing chain's error
    code is the code of a member that fails alone.
(B) documents: generated schema files (POLICY UNKNOWN_FIELDS in REJECT/WARN/IGNORE, FIELDS from the chain pools) on the
    schema search path x instances that omit / add / duplicate / mistype fields, through Validator.validate and octave_validate.
    Oracle: missing REQ field => error naming it; unknown field => REJECT: error naming it, WARN: only a warning and no
    change of status, IGNORE: nothing; field verdicts agree with the reference evaluator.
"""

from __future__ import annotations

import itertools
import math
import os

from vf import constraints_ref as R
from vf import tools
from vf.common import Ctx, Failure, Stats, drive, run_sharded, scratch_dir

PROP = "C08"
LEVEL = "exploration"
RULE = (
    "(A) exhaustive: every chain of 1 and 2 members (both orders) over a 60-member pool (REQ, OPT, 12 CONST, 9 ENUM, 4 TYPE, "
    "12 REGEX anchored at both ends each with a hand-written predicate, 6 RANGE, MIN/MAX_LENGTH 0-3, DATE, ISO8601) x a "
    "~150-value boundary pool (enum prefixes, bounds +-1 and +-eps, bools, numeric text, lists 0-4, dict, None, literal "
    "zones, real/impossible/leap dates, the four ISO 8601 forms valid and invalid); plus Hypothesis-sampled chains of 3-4 "
    "members with all permutations. (B) Hypothesis schemas (3 policies x 1-4 fields) x instances (omit/add/duplicate/mistype; a duplicated field is asserted only when all its occurrences agree) through "
    "Validator and octave_validate with the schema planted in <cwd>/specs/schemas. Non-trivial (A): chain of >=2 members "
    "with a parameterised member and a value on which the members do not all agree; (B): instance with a missing required or "
    "an unknown field. Distinct by (chain, value) resp. (schema, instance)."
)
ASSUMPTIONS = [
    "cross-kind CONST equality, numeric text under RANGE, REQ on an empty list, ENUM/REGEX on non-strings, undocumented ISO 8601 "
    "forms, year 0000 and NaN are outside the reference domain (counted as unasserted) and only subject to the chain laws",
    "REGEX patterns are anchored at both ends as the property states; values ending in a newline are unasserted for REGEX",
]

MEMBERS = R.member_pool()
VALUES = R.value_pool()


def real_value(v):
    from octave_mcp.core.ast_nodes import LiteralZoneValue

    if isinstance(v, R.Zone):
        return LiteralZoneValue(content="x = 1", info_tag=v.tag, fence_marker="```")
    return v


def parse_chain(members):
    from octave_mcp.core.constraints import ConstraintChain

    return ConstraintChain.parse("∧".join(members))


def impl_verdict(members, v):
    """(valid, codes) from the implementation; raises only if the implementation raises."""
    res = parse_chain(members).evaluate(real_value(v), "F")
    return bool(res.valid), [e.code for e in res.errors]


# ---------------------------------------------------------------------------------------------- (A) chains x values
def check_chain_value(members: list[str], vi: int, single_cache: dict | None = None):
    """Returns (fails, nontrivial, unasserted_members)."""
    v = VALUES[vi]
    fails = []

    def single(m):
        key = (m, vi)
        if single_cache is not None and key in single_cache:
            return single_cache[key]
        try:
            r = impl_verdict([m], v)
        except Exception as e:
            r = ("raised", repr(e))
        if single_cache is not None:
            single_cache[key] = r
        return r

    singles = [single(m) for m in members]
    unasserted = 0
    for m, s in zip(members, singles):
        if s[0] == "raised":
            fails.append((f"C08:unlisted:member-raised:{R.split_member(m)[0]}", f"{m} on {v!r} raised {s[1]}"))
            continue
        ref = R.ref_member(m, v)
        if ref is None:
            unasserted += 1
        elif ref != s[0]:
            fails.append((classify_member(m, v, s[0]), f"{m} on value {v!r}: implementation says {'valid' if s[0] else 'invalid'} "
                          f"{s[1]}, the documented meaning says {'valid' if ref else 'invalid'}"))
    nontrivial = False
    if len(members) >= 2 and not any(s[0] == "raised" for s in singles):
        conflict = R.declared_conflict(members)
        amb = R.ambiguous_const_pair(members)
        want = (not conflict) and all(s[0] for s in singles)
        verdicts = {}
        for perm in (itertools.permutations(members) if len(members) <= 4 else [tuple(members)]):
            try:
                verdicts[perm] = impl_verdict(list(perm), v)
            except Exception as e:
                fails.append(("C08:unlisted:chain-raised", f"chain {'∧'.join(perm)} on {v!r} raised {e!r}"))
                return fails, False, unasserted
        got = verdicts[tuple(members)]
        if len({x[0] for x in verdicts.values()}) > 1:
            fails.append(("C08:unlisted:order-dependent-verdict",
                          f"value {v!r}: verdict depends on member order: " + "; ".join(f"{'∧'.join(p)} -> {x[0]}" for p, x in verdicts.items())))
        elif not amb and got[0] != want:
            why = "declares a conflict" if conflict else f"members alone: {[s[0] for s in singles]}"
            fails.append(("C08:unlisted:chain-not-conjunction",
                          f"chain {'∧'.join(members)} on {v!r} is {'valid' if got[0] else 'invalid'} {got[1]} but {why}"))
        elif not got[0] and not conflict and not amb:
            member_codes = {c for s in singles if not s[0] for c in s[1]}
            if not set(got[1]) <= member_codes:
                fails.append(("C08:unlisted:error-code-not-from-failing-member",
                              f"chain {'∧'.join(members)} on {v!r} fails with {got[1]} but failing members give {sorted(member_codes)}"))
        param = any("[" in m for m in members)
        nontrivial = param and len({s[0] for s in singles}) > 1 or (param and conflict)
    return fails, nontrivial, unasserted


def classify_member(m, v, impl_valid) -> str:
    name = R.split_member(m)[0]
    return f"C08:unlisted:member-semantics:{name}:{'accepts' if impl_valid else 'rejects'}"


def shard_pairs(ctx: Ctx, sh: int, nshards: int) -> Stats:
    st = Stats()
    cache: dict = {}
    chains = [[m] for m in MEMBERS] + [[a, b] for a in MEMBERS for b in MEMBERS if a < b]
    for ci, members in enumerate(chains):
        if ci % nshards != sh:
            continue
        for vi in range(len(VALUES)):
            fails, nt, un = check_chain_value(members, vi, cache)
            st.evaluations += 1
            st.labels["unasserted_member_verdicts"] += un
            st.labels[f"chain_len_{len(members)}"] += 1
            if nt:
                st.nontrivial_exact += 1
                st.labels["nontrivial"] += 1
                if st.nontrivial_exact % 3001 == 1 and len(st.samples) < 3:
                    st.samples.append({"chain": "∧".join(members), "value": repr(VALUES[vi])})
            for sig, det in fails:
                st.fail(sig, {"kind": "chain", "members": members, "value_idx": vi, "value_repr": repr(VALUES[vi])}, det)
    return st


def shard_long(ctx: Ctx, sh: int, nshards: int, n: int) -> Stats:
    from hypothesis import strategies as hs

    st = Stats()
    strat = hs.tuples(hs.lists(hs.sampled_from(MEMBERS), min_size=3, max_size=4, unique=True), hs.integers(0, len(VALUES) - 1))

    def one(case):
        members, vi = case
        fails, nt, un = check_chain_value(members, vi)
        st.case({"chain": "∧".join(members), "value": repr(VALUES[vi])}, nontrivial=nt, labels=[f"chain_len_{len(members)}"])
        st.labels["unasserted_member_verdicts"] += un
        for sig, det in fails:
            st.fail(sig, {"kind": "chain", "members": members, "value_idx": vi, "value_repr": repr(VALUES[vi])}, det)

    drive(strat, one, ctx.shard_seed(sh, 3), n, chunk=4000)
    return st


# ---------------------------------------------------------------------------------------------- (B) documents
FIELD_NAMES = ["NAME", "STATUS", "COUNT", "WHEN", "TAGS", "FLAG", "CODE", "NOTE"]
DOC_CHAINS = [
    ["REQ"], ["OPT"], ["REQ", "TYPE[STRING]"], ["REQ", "ENUM[DRAFT,ACTIVE,DEPRECATED]"], ["OPT", "ENUM[A,B]"], ["REQ", "TYPE[NUMBER]"],
    ["OPT", "TYPE[NUMBER]", "RANGE[1,10]"], ["REQ", "TYPE[BOOLEAN]"], ["OPT", "TYPE[LIST]", "MAX_LENGTH[2]"], ["REQ", "CONST[X]"],
    ["OPT", 'REGEX["^[a-z]+$"]'], ["REQ", 'REGEX["^[0-9]{3}$"]'], ["OPT", "MIN_LENGTH[2]"], ["REQ", "TYPE[LIST]", "MIN_LENGTH[1]"],
    ["OPT", "DATE"], ["REQ", "ISO8601"], ["TYPE[STRING]"], ["ENUM[ACTIVE,ACTIVATING,DRAFT]"],
    # patterns with a backslash, in both source spellings of a quoted string: the backslash doubled (an escaped backslash) and
    # single (an unknown escape, kept as it is) - either way the pattern is ^user_\d+$ / ^v[0-9]+\.[0-9]+$
    ["REQ", 'REGEX["^user_\\\\d+$"]'], ["OPT", 'REGEX["^user_\\d+$"]'], ["OPT", 'REGEX["^v[0-9]+\\\\.[0-9]+$"]'], ["REQ", 'REGEX["^v[0-9]+\\.[0-9]+$"]'],
]
# what a schema document's member text denotes (the reference evaluator works on the denoted member)
DOC_MEMBER_DENOTES = {'REGEX["^user_\\\\d+$"]': 'REGEX["^user_\\d+$"]', 'REGEX["^v[0-9]+\\\\.[0-9]+$"]': 'REGEX["^v[0-9]+\\.[0-9]+$"]'}
# instance values as OCTAVE source text with the Python value the reader must produce
INSTANCE_VALUES = [
    ('"abc"', "abc"), ("abc", "abc"), ('"ABC"', "ABC"), ("DRAFT", "DRAFT"), ("ACTIVE", "ACTIVE"), ("ACT", "ACT"), ("ACTIV", "ACTIV"), ("D", "D"),
    ("A", "A"), ("X", "X"), ("x", "x"), ("5", 5), ("11", 11), ("0", 0), ("1", 1), ("10", 10), ("3.5", 3.5), ('"5"', "5"), ("true", True),
    ("false", False), ("[]", []), ("[a]", ["a"]), ("[a,b]", ["a", "b"]), ("[a,b,c]", ["a", "b", "c"]), ('"123"', "123"), ('"12"', "12"),
    ('"2024-01-15"', "2024-01-15"), ('"2023-02-29"', "2023-02-29"), ('"2024-01-15T10:30:00Z"', "2024-01-15T10:30:00Z"),
    ('"2024-01-15T25:00:00"', "2024-01-15T25:00:00"), ('"a"', "a"), ('""', ""), ("null", None),
    ("user_12", "user_12"), ('"user_"', "user_"), ('"user_x"', "user_x"), ('"v1.2"', "v1.2"), ('"v1x2"', "v1x2"), ('"v10.25"', "v10.25"),
    # text with blanks at its ends: the value in the document is the padded text, and that is what is judged
    ('" abc"', " abc"), ('"abc  "', "abc  "), ('"ACTIVE "', "ACTIVE "), ('" X"', " X"), ('"   "', "   "), ('" 5"', " 5"), ('"a "', "a "), ('"2024-01-15 "', "2024-01-15 "),
]


def schema_text(name, policy, fields, policy_last=False):
    head = [f"==={name}===", "META:", "  TYPE::SCHEMA", '  VERSION::"1.0.0"', "  STATUS::ACTIVE", "---"]
    pol = ["POLICY:", '  VERSION::"1.0"', f"  UNKNOWN_FIELDS::{policy}"]
    fld = ["FIELDS:"] + [f'  {fname}::["ex"∧{"∧".join(chain)}]' for fname, chain in fields]
    lines = head + (fld + ["---"] + pol if policy_last else pol + ["---"] + fld)  # (the block order of a schema document is free)
    lines.append("===END===")
    return "\n".join(lines) + "\n"


def instance_text(name, assigns):
    lines = ["===INSTANCE===", "META:", "  TYPE::T", f"{name}:"]
    for k, src in assigns:
        lines.append(f"  {k}::{src}")
    lines.append("===END===")
    return "\n".join(lines) + "\n"


def expected_doc(policy, fields, assigns):
    """Expected (errors, warnings) as sets of (kind, field) from the documented semantics; unasserted fields listed."""
    errs, warns, unasserted = set(), set(), set()
    present: dict = {}
    for k, (src, v) in assigns:
        present.setdefault(k, []).append(v)
    declared = dict(fields)

    def one(fname, chain, v):
        """'missing' | 'bad' | 'ok' | None (documentation does not fix the answer)"""
        if v is None:
            return "missing" if "REQ" in chain else "ok"
        if R.declared_conflict(chain):
            return "bad"
        verdicts = [R.ref_member(DOC_MEMBER_DENOTES.get(m, m), v) for m in chain]
        if any(x is False for x in verdicts):
            return "bad"
        return None if any(x is None for x in verdicts) else "ok"

    for fname, chain in fields:
        if fname not in present:
            if "REQ" in chain:
                errs.add(("missing-or-empty", fname))
            continue
        # a duplicated field: the statement does not say which occurrence counts, so a verdict is asserted only when
        # every occurrence gives the same one
        vs = {one(fname, chain, v) for v in present[fname]}
        if len(vs) != 1 or None in vs:
            unasserted.add(fname)
        elif vs == {"missing"}:
            errs.add(("missing-or-empty", fname))
        elif vs == {"bad"}:
            errs.add(("constraint", fname))
    for k in present:
        if k not in declared:
            if policy == "REJECT":
                errs.add(("unknown", k))
            elif policy == "WARN":
                warns.add(("unknown", k))
    return errs, warns, unasserted


def check_doc(case, root: str):
    from octave_mcp import parse
    from octave_mcp.core.validator import Validator
    from octave_mcp.schemas.loader import load_schema_by_name

    name, policy = case["name"], case["policy"]
    fields = [(f, c) for f, c in case["fields"]]
    assigns = [(k, tuple(INSTANCE_VALUES[i])) for k, i in case["assigns"]]
    sdir = os.path.join(root, "specs", "schemas")
    os.makedirs(sdir, exist_ok=True)
    spath = os.path.join(sdir, name.lower() + ".oct.md")
    with open(spath, "w", encoding="utf-8") as fh:
        fh.write(schema_text(name, policy, fields, case.get("policy_last", False)))
    itext = instance_text(name, [(k, src) for k, (src, v) in assigns])
    fails = []
    old = os.getcwd()
    os.chdir(root)
    try:
        sd = load_schema_by_name(name)
        if sd is None or not sd.fields:
            return [("C08:unlisted:schema-not-loaded", f"generated schema not loaded: {schema_text(name, policy, fields)!r}")], False
        want_e, want_w, unasserted = expected_doc(policy, fields, assigns)
        dup_keys = len({k for k, _ in assigns}) != len(assigns)

        def compare(view, entries, status=None):
            """entries: list of (code, field_path, severity|None)."""
            got_e, got_w = set(), set()
            for code, fld, sev in entries:
                f = (fld or "").split(".")[-1]
                if (fld or "").split(".")[0] != name:
                    continue
                k = "unknown" if (code in ("E007", "W001") and "nknown" in (case.get("_msgs", {}).get((code, fld), "nknown"))) else None
                tgt = got_w if (sev == "warning" or code.startswith("W")) else got_e
                tgt.add((code, f))
            # errors naming each expected field
            for kindw, f in sorted(want_e):
                if f in unasserted:
                    continue
                if not any(g[1] == f for g in got_e):
                    fails.append((f"C08:unlisted:doc:{view}:missing-error:{kindw}:{policy if kindw == 'unknown' else ''}",
                                  f"{view}: no error names field {f!r} ({kindw}); got errors={sorted(got_e)} warnings={sorted(got_w)} | schema={schema_text(name, policy, fields, case.get('policy_last', False))!r} | instance={itext!r}"))
            for g in sorted(got_e):
                if g[1] in unasserted:
                    continue
                if not any(f == g[1] for _, f in want_e):
                    fails.append((f"C08:unlisted:doc:{view}:unexpected-error:{g[0]}:{policy}",
                                  f"{view}: error {g} on a field the documented semantics accepts; want errors={sorted(want_e)} | schema={schema_text(name, policy, fields, case.get('policy_last', False))!r} | instance={itext!r}"))
            for kindw, f in sorted(want_w):
                if not any(g[1] == f for g in got_w):
                    fails.append((f"C08:unlisted:doc:{view}:missing-warning", f"{view}: WARN policy gives no warning for unknown field {f!r}; got {sorted(got_w)} {sorted(got_e)}"))
                if any(g[1] == f for g in got_e):
                    fails.append((f"C08:unlisted:doc:{view}:warn-policy-gives-error", f"{view}: WARN policy reports unknown field {f!r} as an error: {sorted(got_e)}"))
            if policy == "IGNORE":
                for k2 in {k for k, _ in assigns} - {f for f, _ in fields}:
                    if any(g[1] == k2 for g in got_e | got_w):
                        fails.append((f"C08:unlisted:doc:{view}:ignore-policy-reports", f"{view}: IGNORE policy reports unknown field {k2!r}: {sorted(got_e | got_w)}"))
            if status is not None and not unasserted:
                blocking = {(k_, f) for k_, f in want_e}
                want_status = "INVALID" if blocking else "VALIDATED"
                if status != want_status:
                    fails.append((f"C08:unlisted:doc:{view}:status:{policy}:{status}",
                                  f"{view}: validation_status={status}, documented semantics give {want_status} (errors {sorted(want_e)}, warnings {sorted(want_w)}) | schema={schema_text(name, policy, fields, case.get('policy_last', False))!r} | instance={itext!r}"))

        doc = parse(itext)
        v = Validator(schema=None)
        errs = v.validate(doc, strict=False, section_schemas={sd.name: sd})
        compare("Validator", [(e.code, e.field_path, getattr(e, "severity", None)) for e in errs])
        r = tools.validate(content=itext, schema=name)
        if r.get("status") != "success":
            fails.append(("C08:unlisted:doc:validate-tool-error", f"octave_validate errors: {r.get('errors')}"))
        else:
            ve = [(e.get("code"), e.get("field"), None) for e in r.get("validation_errors") or []]
            ws = [(e.get("code"), e.get("field"), "warning") for e in r.get("warnings") or []
                  if (e.get("code"), e.get("field")) not in {(a, b) for a, b, _ in ve}]
            compare("octave_validate", ve + ws, r.get("validation_status"))
        nt = any(k == "missing-or-empty" or k == "unknown" for k, _ in want_e | want_w)
        return fails, nt
    finally:
        os.chdir(old)
        try:
            os.unlink(spath)
        except OSError:
            pass


def doc_strategy():
    from hypothesis import strategies as hs

    fields = hs.lists(hs.tuples(hs.sampled_from(FIELD_NAMES), hs.sampled_from(DOC_CHAINS)), min_size=1, max_size=4, unique_by=lambda t: t[0])
    pair = hs.tuples(hs.sampled_from(FIELD_NAMES + ["EXTRA", "Other_1"]), hs.integers(0, len(INSTANCE_VALUES) - 1))
    # three in four instances have unique keys; the fourth may repeat declared and unknown fields
    assigns = hs.one_of(*[hs.lists(pair, min_size=0, max_size=5, unique_by=lambda t: t[0])] * 3, hs.lists(pair, min_size=2, max_size=6))
    return hs.builds(lambda n, p, f, a, pl: {"kind": "doc", "name": n, "policy": p, "fields": [list(x) for x in f], "assigns": [list(x) for x in a], "policy_last": pl},
                     hs.sampled_from(["GEN_SCHEMA", "WIDGET", "AB_C9"]), hs.sampled_from(["REJECT", "WARN", "IGNORE"]), fields, assigns, hs.booleans())


def shard_docs(ctx: Ctx, sh: int, nshards: int, n: int) -> Stats:
    st = Stats()
    with scratch_dir() as root:
        def one(case):
            fails, nt = check_doc(case, root)
            st.case({"schema": schema_text(case["name"], case["policy"], case["fields"]),
                     "instance": instance_text(case["name"], [(k, INSTANCE_VALUES[i][0]) for k, i in case["assigns"]])},
                    nontrivial=nt, labels=["doc_policy_" + case["policy"]] + (["doc_duplicate_fields"] if len({k for k, _ in case["assigns"]}) != len(case["assigns"]) else []))
            for sig, det in fails:
                st.fail(sig, case, det)

        drive(doc_strategy(), one, ctx.shard_seed(sh, 4), n, chunk=4000)
    return st


# ---------------------------------------------------------------------------------------------- module interface
def check_case(case) -> list[Failure]:
    if case.get("kind") == "doc":
        with scratch_dir() as root:
            fails, _ = check_doc(case, root)
    else:
        vi = case["value_idx"]
        if repr(VALUES[vi]) != case.get("value_repr", repr(VALUES[vi])):
            hits = [i for i, v in enumerate(VALUES) if repr(v) == case["value_repr"]]
            vi = hits[0] if hits else vi
        fails, _, _ = check_chain_value(case["members"], vi)
    return [Failure(s, case, d[:1800]) for s, d in fails]


def shrink_candidates(case):
    if case.get("kind") == "doc":
        for i in range(len(case["assigns"])):
            yield {**case, "assigns": case["assigns"][:i] + case["assigns"][i + 1:]}
        for i in range(len(case["fields"])):
            if len(case["fields"]) > 1:
                yield {**case, "fields": case["fields"][:i] + case["fields"][i + 1:]}
        for i, (f, ch) in enumerate(case["fields"]):
            for j in range(len(ch)):
                if len(ch) > 1:
                    yield {**case, "fields": case["fields"][:i] + [[f, ch[:j] + ch[j + 1:]]] + case["fields"][i + 1:]}
    else:
        m = case["members"]
        for i in range(len(m)):
            if len(m) > 1:
                yield {**case, "members": m[:i] + m[i + 1:]}


def run(ctx: Ctx) -> Stats:
    st = run_sharded(shard_pairs, ctx, nshards=ctx.workers * 2)
    st.exhaustive = True
    st.notes.append("chains of <=2 members x the whole value pool enumerated completely (exhaustive flag refers to this part); "
                    "longer chains and documents are sampled")
    st.merge(run_sharded(shard_long, ctx, extra=(ctx.pick(3000, 30000),)))
    st.merge(run_sharded(shard_docs, ctx, extra=(ctx.pick(600, 6000),)))
    return st
