"""C02 — canonicalisation preserves document content exactly (I1 fidelity).

Generator: model documents (vf/model.py) rendered canonically and leniently (vf/render.py).
Oracle: the generator's own content (nf_model) against the reader's AST (nf_ast) after reading the text, and again
after reading the canonical text the emitter produces from it.
"""

from __future__ import annotations

from vf import docprop, model
from vf.common import Ctx, Failure, Stats

PROP = "C02"
LEVEL = "exploration"
RULE = (
    "Hypothesis-generated model documents (envelope, optional frontmatter/grammar sentinel, META with nested maps, "
    "assignments/blocks with targets/sections with annotations/bare literal zones to depth 3, every value kind incl. "
    "nested lists, pairs, holographic patterns, zones, comments before/after/at end of containers), each rendered in the "
    "conservative canonical spelling and in seeded lenient spellings. Oracle: nf_ast(read(text)) == nf_model(doc) and "
    "nf_ast(parse(emit(read(text)))) == nf_model(doc), field by field (names, order, nesting, typed values, targets, "
    "section ids/annotations, frontmatter, sentinel) plus the linearised comment sequence (text, kind, position between "
    "fields). Non-trivial = depth>=2 or a non-string value or a comment or a hostile/special/expression string; distinct by "
    "rendered text."
)
ASSUMPTIONS = [
    "comment *attachment* (leading vs orphan) is layout, only text/kind/position between fields is content",
    "strings are compared after NFC; a float's repr identifies it",
    "comments inside brackets are documented as stripped (GH#272) and are not generated",
    "spellings used are the documented freedoms listed in DESIGN.md section 2.2",
]

DOC_KW = dict(depth=3, zones=True, comments=True, max_nodes=5, meta_zones=True)


def _read(sp, text):
    from octave_mcp import parse
    from octave_mcp.core.parser import parse_with_warnings

    if sp["k"] == "canon":
        return parse(text)
    return parse_with_warnings(text)[0]


def _classify(doc, want, got, stage: str) -> tuple[str, str]:
    ws, wseq = want
    gs, gseq = got
    if ws == gs and wseq != gseq:
        # known class: comments directly after the header of an empty block/section are dropped by the reader
        after_empty = model.comments_after_empty(doc)
        if after_empty:
            keep = [e for i, e in enumerate(wseq) if i not in after_empty]
            # got must equal want minus a non-empty subset of those positions
            if _is_subseq_removal(wseq, gseq, after_empty):
                return "C02:comment-after-empty-container-dropped", model.first_diff(wseq, gseq, "comments")
            del keep
        return f"C02:unlisted:{stage}:comments", model.first_diff(wseq, gseq, "comments")
    d = model.first_diff(ws, gs, "struct")
    kind = "struct"
    top = ["name", "sentinel", "frontmatter", "meta", "separator", "body"]
    import re

    m = re.match(r"struct\[(\d)\]", d)
    if m:
        kind = top[int(m.group(1))]
    return f"C02:unlisted:{stage}:{kind}", d


def _is_subseq_removal(wseq, gseq, removable: set) -> bool:
    """gseq == wseq with a non-empty subset of the `removable` positions deleted (greedy is exact: fields are unique)."""
    j = 0
    removed = 0
    for i, e in enumerate(wseq):
        if j < len(gseq) and gseq[j] == e:
            j += 1
        elif i in removable:
            removed += 1
        else:
            return False
    return j == len(gseq) and removed > 0


def oracle(doc, sp, text, info):
    from octave_mcp import emit, parse
    from octave_mcp.core.lexer import LexerError
    from octave_mcp.core.parser import ParserError

    want = model.nf_model(doc)
    try:
        d = _read(sp, text)
    except (LexerError, ParserError) as e:
        return [("C02:unlisted:read:rejected", f"reader rejects a documented spelling: {e} | text={text!r}"[:1500])]
    except Exception as e:
        return [("C02:unlisted:read:crash", f"reader crashed {e!r} | text={text!r}"[:1500])]
    got = model.nf_ast(d)
    if got != want:
        sig, det = _classify(doc, want, got, "read")
        return [(sig, f"{det} | text={text!r}"[:1800])]
    try:
        c1 = emit(d)
        d2 = parse(c1)
    except (LexerError, ParserError) as e:
        return [("C02:unlisted:reread:rejected", f"canonical text is unreadable: {e} | text={text!r}"[:1500])]
    except Exception as e:
        return [("C02:unlisted:reread:crash", f"emit/parse crashed {e!r} | text={text!r}"[:1500])]
    got2 = model.nf_ast(d2)
    if got2 != want:
        sig, det = _classify(doc, want, got2, "reread")
        return [(sig, f"{det} | canonical={c1!r}"[:1800])]
    return []


def shard(ctx: Ctx, sh: int, nshards: int, per_shard: int) -> Stats:
    avoid = frozenset() if sh % 8 == 7 else AVOID
    return docprop.shard_impl(ctx, sh, per_shard, oracle, dict(DOC_KW, avoid=avoid), n_lenient=ctx.pick(2, 3))


AVOID = frozenset({"comment_after_empty"})


def check_case(case) -> list[Failure]:
    return docprop.check_case_with(oracle, case)


shrink_candidates = docprop.shrink_candidates


SECTION_ID_PAIRS = [("1.10", "1.1"), ("02", "2"), ("2.50", "2.5"), ("1e3", "1000"), ("1.0", "1"), ("007", "7"), ("1.10b", "1.1b"), ("0.50", "0.5"), ("10", "1"),
                    ("3.140", "3.14"), ("1E2", "100"), ("2.", "2")]


def section_id_cases(ctx: Ctx) -> Stats:
    """Two sections whose ids are different texts denoting the same number (the tenth sub-section §1.10 beside §1.1, §02 beside
    §2): a section id is a label, so both are read, written and re-read as they were spelled."""
    st = Stats()
    A = lambda k, i: {"t": "assign", "key": k, "value": {"v": "int", "i": str(i)}, "lead": [], "trail": None}  # noqa: E731
    for a, b in SECTION_ID_PAIRS:
        for order in (0, 1):
            for named in (True, False):
                ids = (a, b) if order == 0 else (b, a)
                body = [{"t": "section", "id": ids[0], "name": "ALPHA" if named else ids[0], "ann": None, "kids": [A("X", 1)], "lead": [], "tail": []},
                        {"t": "section", "id": ids[1], "name": "BETA" if named else ids[1], "ann": None, "kids": [A("Y", 2)], "lead": [], "tail": []}]
                doc = {"name": "D", "sentinel": None, "frontmatter": None, "meta": [], "sep": False, "body": body, "trailing": []}
                for sp in ({"k": "canon"}, {"k": "len", "seed": ctx.seed * 7 + order, "level": 0.5}):
                    text, info = docprop.render_case(doc, sp)
                    st.case({"text": text}, nontrivial=True, labels=["section_id_spellings"], key=text)
                    for sig, det in oracle(doc, sp, text, info):
                        st.fail(sig, {"doc": doc, "sp": sp}, det)
    return st


def run(ctx: Ctx) -> Stats:
    st = docprop.run_docs(ctx, shard, ctx.pick(700, 9000))
    st.merge(section_id_cases(ctx))
    st.notes.append("7 of 8 shards steer away from the known class 'comment after an empty container header' "
                    "(by construction, counted under label avoided_*); the 8th generates inside it")
    return st
