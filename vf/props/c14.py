"""C14 — projections only remove, and say so: no invention, honest lossy flag.

Generator: model documents with nested blocks, lists, pairs, zones, the six filter keys (STATUS RISKS DECISIONS TESTS CI
DEPS) at top level and nested; most shards without § sections / duplicate sibling keys / holographic values (excluded by
construction because of known findings), one shard in eight with them. 4 modes x 4 content formats through octave_eject
and the CLI eject command.
Oracle: leaves(view) is a subset of leaves(source) as sets of (key path, typed value) using per-format readers (OCTAVE
reader; json.loads; yaml.safe_load; a Markdown scanner); canonical/authoring: equal sets and lossy is False; a strict
subset implies lossy is True; the four renderings of one projection have the same key paths.
"""

from __future__ import annotations

import json
import os
import re

from vf import docprop, model, tools
from vf.common import Ctx, Failure, Stats, drive, run_sharded, scratch_dir

PROP = "C14"
LEVEL = "exploration"
RULE = (
    "Hypothesis model documents (depth<=3, lists, pairs, zones, META incl. nested maps, filter keys STATUS/RISKS/DECISIONS/TESTS/"
    "CI/DEPS at top level and nested; 7 of 8 shards without sections, duplicate sibling keys and holographic values) x modes "
    "{canonical, authoring, executive, developer} x formats {octave, json, yaml, markdown} through octave_eject (also 5 overlapping requests on the shared tool instance vs the same requests alone), and the CLI eject "
    "command [every 4th document]. Oracle: leaf set of each view (own readers per format) is a subset of the source's; canonical/"
    "authoring views equal the source and report lossy=false; strict subset => lossy=true; equal key paths across the four "
    "formats of one projection. Non-trivial = document with a nested filter key, a list/pair/zone value or (in the eighth "
    "shard) a section or duplicate key; distinct by canonical text."
)
ASSUMPTIONS = [
    "Markdown is compared by key paths and, for scalar values, by text (true/True, null/None accepted); list layout in Markdown is not asserted",
    "YAML/JSON key order is not part of the oracle",
    "comments are not leaves",
]
MODES = ["canonical", "authoring", "executive", "developer"]
FORMATS = ["octave", "json", "yaml", "markdown"]
AVOID_CLEAN = frozenset({"comment_after_empty", "cr", "zone_one_blank", "sections", "dup_keys", "holo", "nfc_after_escape"})
AVOID_KNOWN = frozenset({"comment_after_empty", "cr", "zone_one_blank", "holo", "nfc_after_escape"})


# ---------------------------------------------------------------------------------------------- leaves
def nf_leaf(v):
    """Typed, format-neutral value from a model nf value."""
    k = v[0]
    if k in ("str", "int", "bool"):
        return (k, v[1])
    if k == "float":
        return ("float", float(v[1]))
    if k == "null":
        return ("null",)
    if k == "list":
        return ("list", tuple(nf_leaf(i) for i in v[1]))
    if k == "pair":
        return ("map", ((v[1], nf_leaf(v[2])),))
    if k == "map":
        return ("map", tuple((a, nf_leaf(b)) for a, b in v[1]))
    if k == "zone":
        return ("zone", v[1], v[2], v[3])
    if k == "nested":
        return ("map", tuple((a, nf_leaf(b)) for a, b in v[1]))
    if k == "holo":
        return ("holo",)
    return ("other", repr(v))


def leaves_from_nf(struct):
    """struct = nf structure (name, sentinel, fm, meta, sep, body) -> list of (path, leaf, under_section)."""
    out = []
    for k, v in struct[3]:
        if v[0] == "nested":
            for k2, v2 in v[1]:
                out.append((("META", k, k2), nf_leaf(v2), False))
        else:
            out.append((("META", k), nf_leaf(v), False))

    def rec(nodes, path, sec):
        for n in nodes:
            if n[0] == "assign":
                out.append((path + (n[1],), nf_leaf(n[2]), sec))
            elif n[0] == "block":
                if not n[3]:
                    out.append((path + (n[1],), ("emptyblock",), sec))
                rec(n[3], path + (n[1],), sec)
            elif n[0] == "section":
                if not n[4]:
                    out.append((path + ("§" + n[1] + "::" + n[2],), ("emptysection",), True))
                rec(n[4], path + ("§" + n[1] + "::" + n[2],), True)

    rec(struct[5], (), False)
    return out


def py_leaf(x):
    if isinstance(x, bool):
        return ("bool", x)
    if x is None:
        return ("null",)
    if isinstance(x, int):
        return ("int", x)
    if isinstance(x, float):
        return ("float", x)
    if isinstance(x, str):
        return ("str", x)
    if isinstance(x, list):
        return ("list", tuple(py_leaf(i) for i in x))
    if isinstance(x, dict):
        if x.get("__literal_zone__") is True:
            return ("zone", x.get("content"), x.get("info_tag"), x.get("fence_marker"))
        return ("map", tuple((k, py_leaf(v)) for k, v in x.items()))
    return ("other", repr(x))


def leaves_from_data(data, meta_nested_keys):
    """JSON/YAML object -> leaves. Dict values are blocks, except under META (nested maps) and list items (inline maps)."""
    out = []
    if not isinstance(data, dict):
        return [((), ("other", repr(data)), False)]
    for k, v in data.items():
        if k == "META" and isinstance(v, dict):
            for k2, v2 in v.items():
                if isinstance(v2, dict) and not v2.get("__literal_zone__"):
                    for k3, v3 in v2.items():
                        out.append((("META", k2, k3), py_leaf(v3), False))
                else:
                    out.append((("META", k2), py_leaf(v2), False))
            continue

        def rec(key, val, path):
            if isinstance(val, dict) and not val.get("__literal_zone__"):
                if not val:
                    out.append((path + (key,), ("emptyblock",), False))
                for a, b in val.items():
                    rec(a, b, path + (key,))
            else:
                out.append((path + (key,), py_leaf(val), False))

        rec(k, v, ())
    return out


_MD_ITEM = re.compile(r"^- \*\*(.*?)\*\*: (.*)$", re.S)
_MD_TOP = re.compile(r"^\*\*(.*?)\*\*: (.*)$", re.S)


def md_paths(text: str):
    """Markdown scanner -> list of (path, text value or None)."""
    out = []
    stack: list = []  # [(level, key)]
    lines = text.split("\n")
    i = 0
    in_fence = None
    cur = None
    while i < len(lines):
        ln = lines[i]
        i += 1
        if in_fence is not None:
            cur[1] += "\n" + ln
            if ln.strip() == in_fence:
                in_fence = None
            continue
        m = re.match(r"^(#{1,6}) (.*)$", ln)
        if m:
            lvl = len(m.group(1))
            if lvl == 1:
                stack = []
                continue
            while stack and stack[-1][0] >= lvl:
                stack.pop()
            stack.append((lvl, m.group(2)))
            out.append([tuple(k for _, k in stack), None])
            cur = None
            continue
        m = _MD_ITEM.match(ln)
        if m:
            cur = [tuple(k for _, k in stack) + (m.group(1),), m.group(2)]
            out.append(cur)
        else:
            m = _MD_TOP.match(ln)
            if m:
                stack = []
                cur = [(m.group(1),), m.group(2)]
                out.append(cur)
            elif cur is not None and ln != "":
                cur[1] += "\n" + ln
            else:
                continue
        f = re.match(r"^(`{3,})", (cur[1] or "").split("\n")[-1]) if cur else None
        if f and cur[1].count("\n") == 0 and re.match(r"^`{3,}[^`]*$", cur[1]) and any(x.strip() == f.group(1) for x in lines[i:]):
            in_fence = f.group(1)  # a fenced value: a closing fence of the same length follows
    return [(tuple(p), v) for p, v in out]


def scalar_text(leaf):
    k = leaf[0]
    if k == "str":
        return {leaf[1]}
    if k == "int":
        return {str(leaf[1])}
    if k == "float":
        return {str(leaf[1]), repr(leaf[1])}
    if k == "bool":
        return {"True", "true"} if leaf[1] else {"False", "false"}
    if k == "null":
        return {"None", "null"}
    return None


# ---------------------------------------------------------------------------------------------- oracle
def dup_paths(struct) -> set:
    """Paths (parent path + key) of sibling fields/blocks whose key occurs more than once among their siblings."""
    out = set()

    def rec(nodes, path):
        keys = [n[1] for n in nodes if n[0] in ("assign", "block")]
        for k in set(keys):
            if keys.count(k) > 1:
                out.add(path + (k,))
        for n in nodes:
            if n[0] == "block":
                rec(n[3], path + (n[1],))
            elif n[0] == "section":
                rec(n[4], path + ("§" + n[1] + "::" + n[2],))

    rec(struct[5], ())
    return out


def known_loss(missing, src_leaves, dups=frozenset()) -> bool:
    """Predicate of the known finding: every missing leaf is under a § section, or is an earlier duplicate (same path occurs
    again later in the source), or lies inside a block whose path is duplicated."""
    paths = [p for p, _, _ in src_leaves]
    for p, leaf, sec in missing:
        if sec:
            continue
        if any(p[:n] in dups for n in range(1, len(p) + 1)):
            continue
        idx = [i for i, (q, l, s) in enumerate(src_leaves) if q == p]
        if len(idx) > 1:
            continue
        # inside a duplicated block: some proper prefix of p is the path of >= 2 distinct sibling blocks -> approximated
        # by "another leaf shares a proper prefix and the prefix block key occurs twice among that parent's children"
        if any(dup_prefix(p, src_leaves)):
            continue
        return False
    return True


def dup_prefix(p, src_leaves):
    for n in range(1, len(p)):
        pre = p[:n]
        # the same block path reached through two different block nodes shows as non-contiguous runs of that prefix
        runs, inside = 0, False
        for q, _, _ in src_leaves:
            hit = q[:n] == pre
            if hit and not inside:
                runs += 1
            inside = hit
        yield runs > 1


def evaluate(doc, text, with_cli, root):
    from octave_mcp import parse

    fails: dict = {}
    try:
        src_struct = model.nf_ast(parse(text))[0]
    except Exception:
        return [], False
    src = leaves_from_nf(src_struct)
    src_set = set((p, l) for p, l, _ in src)
    src_paths = set(p for p, _, _ in src)
    def sibling_dups(nodes):
        keys = [n[1] for n in nodes if n[0] in ("assign", "block")]
        if len(keys) != len(set(keys)):
            return True
        return any(sibling_dups(n[3] if n[0] == "block" else n[4]) for n in nodes if n[0] in ("block", "section"))

    dups = dup_paths(src_struct)
    has_section_or_dup = any(s for _, _, s in src) or len(src_paths) != len(src) or sibling_dups(src_struct[5])

    def sub_check(view, leaves, lossy, mode, fmt):
        vs = set(leaves)
        # a block whose fields were all filtered out shows as an empty block: its key path exists in the source
        extra = set(x for x in vs - src_set if not (x[1] == ("emptyblock",) and any(q[:len(x[0])] == x[0] for q in src_paths)))
        if extra:
            fails.setdefault(f"C14:unlisted:{view}:invented-leaf", f"{view} mode={mode} format={fmt}: view holds {sorted(extra, key=repr)[:3]!r} which the source does not have at that path | source={text!r}")
            return
        missing = [(p, l, s) for p, l, s in src if (p, l) not in vs]
        if mode in ("canonical", "authoring"):
            if missing:
                sig = "C14:non-octave-formats-drop-sections-and-duplicates" if (fmt != "octave" and known_loss(missing, src, dups)) else f"C14:unlisted:{view}:lossless-mode-drops-leaves"
                fails.setdefault(sig, f"{view} mode={mode} format={fmt}: missing {[(p, l) for p, l, _ in missing][:3]!r} (lossy={lossy}) | source={text!r}")
            if lossy is not None and lossy is not False:
                fails.setdefault(f"C14:unlisted:{view}:lossless-mode-says-lossy", f"{view} mode={mode} format={fmt}: lossy={lossy!r}")
        elif missing and lossy is not None and lossy is not True:
            fails.setdefault(f"C14:unlisted:{view}:dropping-view-not-flagged-lossy", f"{view} mode={mode} format={fmt}: {len(missing)} leaves missing but lossy={lossy!r}")

    for mode in MODES:
        paths_by_fmt = {}
        for fmt in FORMATS:
            try:
                r = tools.eject(content=text, schema="META", mode=mode, format=fmt)
            except Exception as e:
                fails.setdefault(f"C14:unlisted:eject-raised:{type(e).__name__}", f"octave_eject(mode={mode}, format={fmt}) raised {e!r} | source={text!r}")
                continue
            out, lossy = r.get("output"), r.get("lossy")
            if not isinstance(out, str) or not isinstance(lossy, bool):
                fails.setdefault("C14:unlisted:eject-envelope", f"output/lossy missing or mistyped: {type(out).__name__}, {lossy!r}")
                continue
            try:
                if fmt == "octave":
                    lv = [(p, l) for p, l, _ in leaves_from_nf(model.nf_ast(parse(out))[0])]
                elif fmt == "json":
                    lv = [(p, l) for p, l, _ in leaves_from_data(json.loads(out), None)]
                elif fmt == "yaml":
                    import yaml

                    lv = [(p, l) for p, l, _ in leaves_from_data(yaml.safe_load(out) or {}, None)]
                else:
                    lv = None
            except Exception as e:
                fails.setdefault(f"C14:unlisted:view-unreadable:{fmt}", f"mode={mode} format={fmt}: output is not readable as {fmt}: {e!r} | output={out[:300]!r}")
                continue
            if lv is not None:
                sub_check("eject", lv, lossy, mode, fmt)
                paths_by_fmt[fmt] = set(p for p, _ in lv)
            elif "```" in repr([l for _, l, _ in src if l[0] != "zone"]):
                pass  # a *string* that starts like a fence cannot be told from a zone in Markdown: not asserted
            else:
                mp = md_paths(out)
                src_keys = set(p[-1] for p in src_paths) | set(k for p in src_paths for k in p)
                src_pairs = {}
                for q, l, _ in src:
                    src_pairs.setdefault(q[-1], []).append(l)
                md_keys = set()
                for p, v in mp:
                    md_keys.add(p[-1])
                    if p[-1] not in src_keys:
                        fails.setdefault("C14:unlisted:eject:markdown-invented-key", f"mode={mode}: markdown has key {p[-1]!r} the source does not have | md={out[:400]!r} | source={text!r}")
                    elif v is not None and p[-1] in src_pairs and not any(len(q) > 2 and q[0] == "META" and q[1] == p[-1] for q in src_paths):
                        texts = [scalar_text(l) for l in src_pairs[p[-1]]]
                        def norm(x):
                            return " ".join(x.split())

                        if all(t is not None for t in texts) and not any(norm(v) in {norm(y) for y in t} for t in texts):
                            fails.setdefault("C14:unlisted:eject:markdown-value-differs", f"mode={mode}: markdown value {v!r} for key {p[-1]!r}, source has {src_pairs[p[-1]]!r}")
                paths_by_fmt[fmt] = md_keys
                if mode in ("canonical", "authoring"):
                    # every first-level META key and every block/assignment key of the source must be named
                    need = [(p, l, s_) for p, l, s_ in src if not (p[0] == "META" and len(p) > 2)]
                    missing = [(p, l, s_) for p, l, s_ in need if (p[1] if p[0] == "META" else p[-1]) not in md_keys]
                    if missing:
                        sig = "C14:non-octave-formats-drop-sections-and-duplicates" if known_loss(missing, src, dups) else "C14:unlisted:eject:markdown-lossless-mode-drops-keys"
                        fails.setdefault(sig, f"mode={mode} markdown: keys missing {[p for p, _, _ in missing][:3]!r} (lossy={lossy}) | md={out[:300]!r} | source={text!r}")
        # (4) equal key paths across the formats of this projection
        if len(paths_by_fmt) == 4:  # (Markdown key names were compared with the source above; heading nesting cannot be closed, so no paths)
            def leafy(ps):
                return set(p for p in ps if not any(q != p and q[:len(p)] == p for q in ps))
            ref = leafy(paths_by_fmt["octave"])
            for fmt in ("json", "yaml"):
                other = leafy(paths_by_fmt[fmt])
                if other != ref:
                    only_sections = all(any(str(k).startswith("§") for k in p) for p in ref - other) and not (other - ref)
                    known = fmt != "octave" and (only_sections or has_section_or_dup)
                    sig = "C14:non-octave-formats-drop-sections-and-duplicates" if known else f"C14:unlisted:formats-disagree:{fmt}"
                    fails.setdefault(sig, f"mode={mode}: key paths of {fmt} differ from octave: only-octave={sorted(ref - other, key=repr)[:3]!r} only-{fmt}={sorted(other - ref, key=repr)[:3]!r} | source={text!r}")
    if with_cli:
        # overlapping requests on the one long-lived tool instance (as the server runs them): each must answer exactly like
        # the same request made alone
        import asyncio

        combos = [("executive", "json"), ("canonical", "yaml"), ("developer", "markdown"), ("authoring", "json"), ("executive", "octave")]
        tool = tools._tool("eject")

        async def many():
            return await asyncio.gather(*[tool.execute(content=text, schema="META", mode=m, format=f) for m, f in combos], return_exceptions=True)

        try:
            together = tools._run(many())
            for (m, f), rt in zip(combos, together):
                alone = tools.eject(content=text, schema="META", mode=m, format=f)
                if isinstance(rt, BaseException) or (rt.get("lossy"), rt.get("fields_omitted"), rt.get("output")) != (alone.get("lossy"), alone.get("fields_omitted"), alone.get("output")):
                    fails.setdefault("C14:unlisted:overlapping-eject-calls-answer-differently",
                                     f"mode={m} format={f}: in flight with other requests lossy={getattr(rt, 'get', lambda k: rt)('lossy')!r} fields_omitted={getattr(rt, 'get', lambda k: None)('fields_omitted')!r}; alone lossy={alone.get('lossy')!r} fields_omitted={alone.get('fields_omitted')!r} | source={text!r}")
                    break
        except Exception as e:  # noqa: BLE001
            fails.setdefault("C14:unlisted:overlapping-eject-raised", repr(e))
    if with_cli and root:
        path = os.path.join(root, "e.oct.md")
        with open(path, "w", encoding="utf-8") as fh:
            fh.write(text)
        for mode in MODES:
            for fmt in ("octave", "json", "yaml"):
                code, out, err, exc = tools.cli(["eject", path, "--mode", mode, "--format", fmt])
                if exc is not None:
                    fails.setdefault("C14:unlisted:cli-raised", f"CLI eject raised {exc!r}")
                    continue
                if code != 0:
                    continue  # refused (e.g. zones are not JSON-serialisable in the CLI): counted, not a projection
                try:
                    if fmt == "octave":
                        lv = [(p, l) for p, l, _ in leaves_from_nf(model.nf_ast(parse(out))[0])]
                    elif fmt == "json":
                        lv = [(p, l) for p, l, _ in leaves_from_data(json.loads(out), None)]
                    else:
                        import yaml

                        lv = [(p, l) for p, l, _ in leaves_from_data(yaml.safe_load(out) or {}, None)]
                except Exception as e:
                    fails.setdefault(f"C14:unlisted:cli-view-unreadable:{fmt}", f"CLI eject mode={mode} format={fmt}: {e!r} | {out[:200]!r}")
                    continue
                sub_check("cli", lv, None, mode, fmt)
    return [(s, d[:1800]) for s, d in fails.items()], has_section_or_dup


def nontrivial(doc) -> bool:
    f = model.features(doc)
    nested_filter = any(d >= 1 and n.get("key") in model.FILTER_KEYS for d, n in model.walk_nodes(doc))
    return nested_filter or bool(f & {"v_list", "v_pair", "v_zone", "node_section", "dup_or_repeated_key"})


def crlf_in_zone(text: str):
    """The text with a CR appended to the first content line of its first non-empty literal zone (None if there is none)."""
    lines = text.split("\n")
    idx = [i for i, ln in enumerate(lines) if re.fullmatch(r" *`{3,}[^`]*", ln)]
    for a, b in zip(idx[0::2], idx[1::2]):
        if b - a >= 2 and "\r" not in lines[a + 1]:
            lines[a + 1] += "\r"
            return "\n".join(lines)
    return None


def shard(ctx: Ctx, sh: int, nshards: int, n: int) -> Stats:
    st = Stats()
    avoid = AVOID_KNOWN if sh % 8 == 7 else AVOID_CLEAN
    counter = [0]
    with scratch_dir() as root:
        def one(doc):
            counter[0] += 1
            text, _ = docprop.render_case(doc, {"k": "canon"})
            fails, known_shape = evaluate(doc, text, counter[0] % 4 == 0, root)
            st.case({"text": text}, nontrivial=nontrivial(doc), labels=sorted(model.features(doc) & {"v_list", "v_pair", "v_zone", "node_section", "dup_or_repeated_key",
                                                                                                      "meta_nested", "depth>=3"}) + (["with_section_or_dup"] if known_shape else []),
                    key=text, n=16)
            for sig, det in fails:
                st.fail(sig, {"doc": doc}, det)
            # the same text with CR LF inside a literal zone (a captured HTTP request, a .bat file): content route only — the
            # view must carry the zone as the reader of the source reads it
            tcr = crlf_in_zone(text)
            if tcr is not None and counter[0] % 3 == 0:
                fails2, _ = evaluate(doc, tcr, False, root)
                st.case({"text": tcr}, nontrivial=True, labels=["crlf_inside_zone"], key=tcr, n=16)
                for sig, det in fails2:
                    st.fail(sig.replace("C14:unlisted:", "C14:unlisted:crlf-zone:"), {"doc": doc, "crlf_zone": True}, det)

        drive(model.document(depth=3, zones=True, comments=True, max_nodes=5, meta_zones=True, avoid=avoid), one, ctx.shard_seed(sh, 71), n)
    return st


def check_case(case) -> list[Failure]:
    text, _ = docprop.render_case(case["doc"], {"k": "canon"})
    with scratch_dir() as root:
        if case.get("crlf_zone"):
            tcr = crlf_in_zone(text)
            fails, _ = evaluate(case["doc"], tcr, False, root) if tcr else ([], False)
            fails = [(sg.replace("C14:unlisted:", "C14:unlisted:crlf-zone:"), d) for sg, d in fails]
        else:
            fails, _ = evaluate(case["doc"], text, True, root)
    return [Failure(s, case, d) for s, d in fails]


def shrink_candidates(case):
    for d in model.shrink_candidates(case["doc"]):
        yield {"doc": d}


def run(ctx: Ctx) -> Stats:
    return run_sharded(shard, ctx, extra=(ctx.pick(300, 3000),))
