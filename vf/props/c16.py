"""C16 — writes are all-or-nothing at every interruption point (fault enumeration).

For each scenario (entry point x mode x base_hash x parent x permission bits x size) a fault-free traced run in a forked
child yields the ordered list of file-operation boundaries (vf/fsx.py). Then EVERY boundary index is executed again in a
fresh sandbox with each of: kill before the operation, kill after a torn write (write boundaries), and an injected
OSError of ENOSPC / EACCES / EIO / EINTR / EROFS; in the thorough tier also every ordered pair of boundaries for ENOSPC/EIO.
The supervising process inspects the sandbox afterwards.
"""

from __future__ import annotations

import errno
import hashlib
import itertools
import json
import os
import shutil

from vf import fsx
from vf.common import Ctx, Failure, Stats, run_sharded, scratch_dir

PROP = "C16"
LEVEL = "fault_enumeration"
RULE = (
    "Scenarios: entry in {octave_write, atomic_write_octave, CLI write --stdin} x mode in {new file, overwrite, changes, normalize} "
    "(changes/normalize for octave_write only) x base_hash in {none, current} x parent directory in {exists, missing} x permission "
    "bits in {0644, 0600, 0444} x document size in {~60 B, ~25 kB}; 46 scenarios in quick. Per scenario the fault-free run is traced "
    "(15-40 file-operation boundaries: lstat/stat/open/read/close/mkdir/mkstemp-open/fchmod/write/flush/fsync/replace/unlink ...) and "
    "every boundary index x {kill, kill after torn write, short write (descriptor-level writes), ENOSPC, EACCES, EIO, EINTR, EROFS} is executed in a forked child on a fresh "
    "sandbox (thorough: plus every ordered pair of boundaries for ENOSPC and EIO). Oracle (supervisor): after a kill the target holds "
    "its old bytes (or is still absent) or exactly the fault-free new bytes; a returned error leaves target bytes and mode as before "
    "and no new entry beside it (faults on the clean-up's own stat/unlink of the temp file are counted separately); success => "
    "sha256(file) == canonical_hash and permission bits preserved; fsync precedes replace in the trace (an exception escaping on an injected fault is treated like a returned error and counted). "
    "Non-trivial = the fault lands after the first mutating boundary and before replace returns; distinct by (scenario, boundary, fault)."
)
ASSUMPTIONS = [
    "interruption is modelled at Python file-operation granularity: a kill happens between two operations, or inside a write after a prefix of the data",
    "power-loss durability is visible only as the order fsync -> replace in the trace, not as lost data",
]
FAULTS = [("ENOSPC", errno.ENOSPC), ("EACCES", errno.EACCES), ("EIO", errno.EIO), ("EINTR", errno.EINTR), ("EROFS", errno.EROFS)]
OLD = "===OLD===\nMETA:\n  TYPE::T\nK::old\nKEEP::[a,b]\n===END===\n"
OLD_NONCANON = "===OLD===\nMETA:\n    TYPE :: T\nK::old  \nKEEP::[a, b]\n"


def new_text(size: str) -> str:
    if size == "small":
        return "===NEW===\nMETA:\n  TYPE::T\nK::new\n===END===\n"
    body = "".join(f"FIELD_{i}::\"value number {i} with some padding text to make the line longer\"\n" for i in range(300))
    return "===NEW===\nMETA:\n  TYPE::T\n" + body + "===END===\n"


def scenarios(tier: str):
    out = []
    for entry in ("tool", "atomic", "cli"):
        modes = ["new", "overwrite"] + (["changes", "normalize"] if entry == "tool" else [])
        for mode in modes:
            for bh in (False, True):
                if bh and mode == "new":
                    continue
                if bh and entry == "cli" and mode != "overwrite":
                    continue
                for parent_missing in ((False, True) if mode == "new" else (False,)):
                    for fmode in ((0o644, 0o600, 0o444) if mode != "new" else (0o644,)):
                        for size in ("small", "large"):
                            if size == "large" and (fmode != 0o644 or mode in ("changes", "normalize")) and tier == "quick":
                                continue
                            if tier == "quick" and fmode == 0o444 and entry != "tool":
                                continue
                            out.append({"entry": entry, "mode": mode, "base_hash": bh, "parent_missing": parent_missing, "fmode": fmode, "size": size})
    # lenient write with a schema whose repair re-emits the text after the first emission (hash must be of what is written)
    for mode in ("new", "overwrite"):
        out.append({"entry": "tool", "mode": mode, "base_hash": False, "parent_missing": False, "fmode": 0o644, "size": "small", "repair": True})
    base = {"base_hash": False, "parent_missing": False, "fmode": 0o644, "size": "small"}
    # the old bytes are a near-copy of what the call is about to install: the same text, the same text with CRLF / lone CR
    # line ends, the same text without its final newline ("nothing to do" short cuts must still leave new bytes == hash)
    for entry in ("tool", "atomic", "cli"):
        for oldkind in ("same", "crlf", "cr", "nofinalnl"):
            for bh in (False, True):
                if bh and oldkind in ("crlf", "cr"):
                    continue  # the product hashes the newline-translated text, so sha256(bytes) is refused before anything is written
                out.append({**base, "entry": entry, "mode": "overwrite", "base_hash": bh, "old": oldkind})
    # CLI --changes (its own code path: read, apply, emit, atomic write), also with a change that sets the current value
    for bh in (False, True):
        out.append({**base, "entry": "cli", "mode": "changes", "base_hash": bh})
        if not bh:
            out.append({**base, "entry": "cli", "mode": "changes", "base_hash": bh, "old": "crlf_old", "noop_change": True})
    out.append({**base, "entry": "tool", "mode": "changes", "old": "crlf_old", "noop_change": True})
    for entry in ("tool", "atomic", "cli"):
        out.append({**base, "entry": entry, "mode": "new", "dir_target": True})
    # permission bits x umask, fault-free run only (an existing file keeps its bits whatever the process umask is)
    for entry in ("tool", "atomic", "cli"):
        for mode in (("overwrite", "changes") if entry != "atomic" else ("overwrite",)):
            for fmode in (0o664, 0o660, 0o640, 0o755, 0o775, 0o666, 0o604):
                for um in (0o022, 0o077, 0o000):
                    out.append({**base, "entry": entry, "mode": mode, "fmode": fmode, "umask": um, "nofault": True})
    return out


def old_text(sc) -> str:
    k = sc.get("old")
    if k is None:
        return OLD_NONCANON if sc["mode"] == "normalize" else OLD
    n = new_text(sc["size"])
    return {"same": n, "crlf": n.replace("\n", "\r\n"), "cr": n.replace("\n", "\r"), "nofinalnl": n.rstrip("\n"),
            "crlf_old": OLD.replace("\n", "\r\n")}[k]


def setup(sc, root):
    """Create the sandbox for one run; returns (target path, old bytes or None)."""
    d = os.path.join(root, "sub") if sc["parent_missing"] else root
    target = os.path.join(d, "t.oct.md")
    old = None
    if sc.get("dir_target"):
        os.makedirs(target)
        return target, None
    if sc["mode"] != "new":
        old = old_text(sc).encode("utf-8")
        with open(target, "wb") as fh:
            fh.write(old)
        os.chmod(target, sc["fmode"])
    return target, old


def run_entry(sc, target, old):
    """Executed in the child, under interposition. Returns a JSON-able outcome."""
    import asyncio

    bh = hashlib.sha256(old).hexdigest() if (sc["base_hash"] and old is not None) else None
    content = new_text(sc["size"])
    if sc["entry"] == "tool":
        from octave_mcp.mcp.write import WriteTool

        kw = {"target_path": target}
        if sc.get("repair"):
            content = content.replace("  TYPE::T\n", "  TYPE::T\n  VERSION::\"1.0\"\n  STATUS::draft\n")
            kw.update({"lenient": True, "schema": "META"})
        if sc["mode"] in ("new", "overwrite"):
            kw["content"] = content
        elif sc["mode"] == "changes":
            kw["changes"] = {"K": "old"} if sc.get("noop_change") else {"K": "changed", "ADDED": [1, 2]}
        if bh:
            kw["base_hash"] = bh
        r = asyncio.run(WriteTool().execute(**kw))
        return {"status": r.get("status"), "canonical_hash": r.get("canonical_hash"), "errors": r.get("errors")}
    if sc["entry"] == "atomic":
        from octave_mcp.core.file_ops import atomic_write_octave

        r = atomic_write_octave(target, content, bh)
        return {"status": r.get("status"), "canonical_hash": r.get("canonical_hash"), "errors": r.get("error")}
    from click.testing import CliRunner

    from octave_mcp.cli.main import cli

    if sc["mode"] == "changes":
        args = ["write", target, "--changes", json.dumps({"K": "old"} if sc.get("noop_change") else {"K": "changed", "ADDED": [1, 2]})] + (["--base-hash", bh] if bh else [])
    else:
        args = ["write", target, "--stdin"] + (["--base-hash", bh] if bh else [])
    res = CliRunner().invoke(cli, args, input=content, catch_exceptions=True)
    exc = res.exception if (res.exception is not None and not isinstance(res.exception, SystemExit)) else None
    m = None
    for ln in (res.output or "").splitlines():
        if ln.startswith("canonical_hash: "):
            m = ln.split(": ", 1)[1].strip()
    if exc is not None:
        raise exc
    return {"status": "success" if res.exit_code == 0 else "error", "canonical_hash": m, "errors": (res.output or "")[-200:]}


def child(sc, root, plan, result_path):
    """plan: {} (trace only) | {"at": [i, ...], "fault": name} | {"at": [i], "kill": True} | {"at":[i], "torn": True}."""
    target, old = setup(sc, root)
    at = list(plan.get("at", []))
    code = dict(FAULTS).get(plan.get("fault", ""), None)

    then = plan.get("then")

    def hook(idx, name, info):
        if then and idx == then["at"]:
            # second fault of a "failed install, then ..." plan: the first (an errno at the rename) has been delivered
            if then.get("kill"):
                os._exit(137)
            c2 = dict(FAULTS)[then["fault"]]
            raise OSError(c2, os.strerror(c2) + " (injected, second)")
        if idx in at:
            if plan.get("kill"):
                os._exit(137)
            if plan.get("torn"):
                if name == "write":
                    return ("torn", 37)
                os._exit(137)
            if plan.get("short"):
                return ("short", 37) if name == "write" else None
            if code is not None:
                raise OSError(code, os.strerror(code) + " (injected)")
        return None

    if "umask" in sc:
        os.umask(sc["umask"])
    fsx.install([root], hook)
    out = {}
    try:
        out["returned"] = run_entry(sc, target, old)
    except BaseException as e:  # noqa: BLE001 - the tool must never raise; recorded for the supervisor
        out["raised"] = repr(e)
    out["trace"] = fsx.STATE.trace
    with fsx.STATE.real["builtins.open"](result_path, "w") as fh:
        json.dump(out, fh)
    os._exit(0)


def run_one(sc, base_dir, plan):
    """Fork a child on a fresh sandbox; return (exit kind, outcome dict, after-state)."""
    root = os.path.join(base_dir, "sb")
    shutil.rmtree(root, ignore_errors=True)
    os.makedirs(root)
    result_path = os.path.join(base_dir, "result.json")
    if os.path.exists(result_path):
        os.unlink(result_path)
    pid = os.fork()
    if pid == 0:
        try:
            child(sc, root, plan, result_path)
        finally:
            os._exit(3)
    _, status = os.waitpid(pid, 0)
    code = os.waitstatus_to_exitcode(status)
    outcome = None
    if os.path.exists(result_path):
        with open(result_path) as fh:
            outcome = json.load(fh)
    d = os.path.join(root, "sub") if sc["parent_missing"] else root
    target = os.path.join(d, "t.oct.md")
    state = {"target": None, "mode": None, "siblings": sorted(os.listdir(d)) if os.path.isdir(d) else None}
    if os.path.lexists(target) and not os.path.isdir(target):
        with open(target, "rb") as fh:
            state["target"] = fh.read()
        state["mode"] = os.stat(target).st_mode & 0o777
    return code, outcome, state


def label_of(sc):
    return (f"{sc['entry']}/{sc['mode']}/bh{int(sc['base_hash'])}/pm{int(sc['parent_missing'])}/{oct(sc['fmode'])}/{sc['size']}" + ("/lenient-repair" if sc.get("repair") else "")
            + (f"/old={sc['old']}" if sc.get("old") else "") + ("/noop-change" if sc.get("noop_change") else "") + (f"/umask={oct(sc['umask'])}" if "umask" in sc else "") + ("/target-is-a-directory" if sc.get("dir_target") else ""))


def check_scenario(sc, base_dir, st: Stats, pairs: bool, only=None):
    """Enumerate all faults of one scenario. `only` = (plan) replays a single run."""
    fails = []
    if sc.get("dir_target"):
        # the target path names an existing directory: nothing can be installed there, so the call must say so and leave
        # the directory as it was (in particular no staging file inside or beside it)
        code, base, _ = run_one(sc, base_dir, {})
        root = os.path.join(base_dir, "sb")
        tgt = os.path.join(root, "t.oct.md")
        st.evaluations += 1
        st.nontrivial_exact += 1
        st.labels["target_is_a_directory"] += 1
        res = (base or {}).get("returned") or {"status": "error"}
        left = sorted(os.listdir(root)) + (sorted(os.listdir(tgt)) if os.path.isdir(tgt) else ["<target no longer a directory>"])
        if res.get("status") == "success":
            fails.append((f"C16:unlisted:success-on-directory-target:{sc['entry']}", f"{label_of(sc)}: the target is a directory but the call reports success; sandbox now {left}", {}))
        elif left != ["t.oct.md"]:
            fails.append((f"C16:unlisted:error-leaves-temp-file:{sc['entry']}", f"{label_of(sc)}: the target is a directory; the call failed and left {left}", {}))
        return fails
    code, base, after = run_one(sc, base_dir, {})
    if code != 0 or base is None or "returned" not in base or base["returned"].get("status") != "success":
        fails.append(("C16:unlisted:fault-free-run-failed", f"{label_of(sc)}: fault-free run: exit={code} outcome={str(base)[:400]}", {}))
        return fails
    trace = base["trace"]
    new_bytes = after["target"]
    old_bytes = old_text(sc).encode() if sc["mode"] != "new" else None
    want_hash = base["returned"].get("canonical_hash")
    if want_hash and hashlib.sha256(new_bytes).hexdigest() != want_hash:
        fails.append(("C16:unlisted:success-hash-mismatch", f"{label_of(sc)}: sha256(file) != canonical_hash after a successful write", {}))
    if old_bytes is not None and after["mode"] != sc["fmode"]:
        fails.append(("C16:unlisted:success-mode-not-preserved", f"{label_of(sc)}: permission bits {oct(sc['fmode'])} became {oct(after['mode'])}", {}))
    names = [n for n, _ in trace]
    if "replace" in names and ("fsync" not in names or names.index("fsync") > names.index("replace")):
        fails.append(("C16:unlisted:replace-without-prior-fsync", f"{label_of(sc)}: trace has no fsync before replace: {names}", {}))
    if sc.get("nofault"):
        st.evaluations += 1
        st.labels["fault_free_mode_umask_runs"] += 1
        return fails
    if len(st.samples) < 2:
        st.samples.append({"scenario": label_of(sc), "boundaries": [f"{i}:{n} {info}" for i, (n, info) in enumerate(trace)],
                           "faults_per_boundary": ["kill", "torn (write boundaries)"] + [f for f, _ in FAULTS]})
    first_mut = next((i for i, (n, _) in enumerate(trace) if n in fsx.MUTATING), len(trace))
    repl = max((i for i, (n, _) in enumerate(trace) if n in ("replace", "rename")), default=len(trace))
    before_siblings = ["t.oct.md"] if sc["mode"] != "new" else []
    plans = []
    for i in range(len(trace)):
        plans.append({"at": [i], "kill": True})
        if trace[i][0] == "write":
            plans.append({"at": [i], "torn": True})
            if trace[i][1].startswith("fd:") and False:
                pass
            plans.append({"at": [i], "short": True})  # only meaningful for descriptor-level os.write (a file object retries by itself)
        for fname, _ in FAULTS:
            plans.append({"at": [i], "fault": fname})
    if pairs:
        for i, j in itertools.permutations(range(len(trace)), 2):
            if i < j:
                for fname in ("ENOSPC", "EIO"):
                    plans.append({"at": [i, j], "fault": fname})
    # a failed install step followed by a second fault: whatever the code does after os.replace/os.rename refused (clean-up,
    # retry, fall back to copying) is subject to the same rule, so every boundary that follows gets a kill and an ENOSPC
    if repl < len(trace):
        for fname in ("EIO", "EACCES"):
            for off in range(1, 13):
                plans.append({"at": [repl], "fault": fname, "then": {"at": repl + off, "kill": True}})
                plans.append({"at": [repl], "fault": fname, "then": {"at": repl + off, "fault": "ENOSPC"}})
    if only is not None:
        plans = [only]
    for plan in plans:
        code, out, state = run_one(sc, base_dir, plan)
        i = plan["at"][0]
        nontrivial = first_mut <= i <= repl
        st.evaluations += 1
        kind = "kill" if plan.get("kill") else "torn" if plan.get("torn") else "short" if plan.get("short") else plan["fault"]
        if plan.get("then"):
            kind += "+then-" + ("kill" if plan["then"].get("kill") else plan["then"]["fault"])
        st.labels["fault_" + kind] += 1
        if nontrivial:
            st.nontrivial_exact += 1
            st.labels["nontrivial"] += 1
        where = f"{label_of(sc)} boundary {plan['at']} {[trace[k] for k in plan['at'] if k < len(trace)]} fault={kind}" + (f" second at boundary {plan['then']['at']}" if plan.get("then") else "")
        tgt = state["target"]
        if code == 137:
            if tgt not in (old_bytes, new_bytes):
                fails.append((f"C16:unlisted:kill:target-neither-old-nor-new:{sc['entry']}", f"{where}: after the kill the target holds {len(tgt) if tgt is not None else None} bytes "
                              f"(old {len(old_bytes) if old_bytes else None}, new {len(new_bytes)}): {tgt[:80] if tgt else tgt!r}", plan))
            continue
        if out is None:
            fails.append((f"C16:unlisted:child-died:{code}", f"{where}: child ended with exit {code} and no outcome", plan))
            continue
        if "raised" in out:
            # an exception escaping on an injected I/O fault (e.g. pathlib's exists() re-raising EIO from stat) is not
            # addressed by the statement; the file-system state must satisfy the same rule as after a returned error
            st.labels["call_raised_on_injected_fault"] += 1
            res = {"status": "error", "errors": out["raised"]}
        else:
            res = out["returned"]
        if res.get("status") == "success":
            if tgt is None or (res.get("canonical_hash") and hashlib.sha256(tgt).hexdigest() != res["canonical_hash"]):
                fails.append((f"C16:unlisted:success-hash-mismatch:{sc['entry']}", f"{where}: returned success but sha256(file) != canonical_hash", plan))
            elif tgt != new_bytes:
                # "the complete new canonical text": a call that reports success after a fault must have installed what
                # the fault-free call installs, not something computed from a failed read
                fails.append((f"C16:unlisted:success-but-not-the-new-text:{sc['entry']}", f"{where}: returned success but the target holds {len(tgt)} bytes that are not the "
                              f"fault-free result ({len(new_bytes)} bytes): {tgt[:120]!r}", plan))
            if old_bytes is not None and state["mode"] != sc["fmode"]:
                fails.append((f"C16:unlisted:success-mode-not-preserved:{sc['entry']}", f"{where}: success but mode {oct(sc['fmode'])} -> {oct(state['mode'] or 0)}", plan))
        else:
            if tgt != old_bytes:
                fails.append((f"C16:unlisted:error-but-target-changed:{sc['entry']}", f"{where}: returned error {str(res.get('errors'))[:200]} but the target changed "
                              f"({'absent' if tgt is None else str(len(tgt)) + ' bytes'}; before {'absent' if old_bytes is None else str(len(old_bytes)) + ' bytes'})", plan))
            elif old_bytes is not None and state["mode"] != sc["fmode"]:
                fails.append((f"C16:unlisted:error-but-mode-changed:{sc['entry']}", f"{where}: returned error but mode {oct(sc['fmode'])} -> {oct(state['mode'] or 0)}", plan))
            extra = [s for s in (state["siblings"] or []) if s not in before_siblings]
            if extra:
                faulted = [trace[k] for k in plan["at"] if k < len(trace)]
                cleanup_fault = any(n in ("stat", "unlink", "lstat") and info.endswith(".tmp") for n, info in faulted) or \
                    any(n in ("stat", "unlink", "lstat") and ".tmp" in info for n, info in (out["trace"][len(trace) - 1:] if False else []))
                # the clean-up itself (os.path.exists(temp) / os.unlink(temp)) may be what the fault hit: detect by the
                # faulted boundary in THIS run's trace
                hit = [out["trace"][k] for k in plan["at"] + ([plan["then"]["at"]] if plan.get("then") else []) if k < len(out["trace"])]
                cleanup_fault = cleanup_fault or any(n in ("stat", "unlink", "lstat") and ".tmp" in info for n, info in hit)
                if cleanup_fault:
                    st.labels["temp_left_because_cleanup_itself_faulted"] += 1
                else:
                    fails.append((f"C16:unlisted:error-leaves-temp-file:{sc['entry']}", f"{where}: returned error and left {extra} beside the target", plan))
    return fails


def shard(ctx: Ctx, sh: int, nshards: int) -> Stats:
    # import everything the children need BEFORE forking them (a child must not pay for imports)
    import asyncio  # noqa: F401

    import click.testing  # noqa: F401

    import octave_mcp.cli.main  # noqa: F401
    import octave_mcp.core.file_ops  # noqa: F401
    import octave_mcp.mcp.write  # noqa: F401

    st = Stats()
    scs = scenarios(ctx.tier)
    with scratch_dir() as base:
        for k, sc in enumerate(scs):
            if k % nshards != sh:
                continue
            st.labels["scenarios"] += 1
            for sig, det, plan in check_scenario(sc, base, st, pairs=(not ctx.quick and sc["size"] == "small")):
                st.fail(sig, {"scenario": sc, "plan": plan}, det)
    return st


def check_case(case) -> list[Failure]:
    st = Stats()
    with scratch_dir() as base:
        fails = check_scenario(case["scenario"], base, st, False, only=case.get("plan") or None)
    return [Failure(s, case, d) for s, d, _ in fails]


def run(ctx: Ctx) -> Stats:
    st = run_sharded(shard, ctx)
    st.exhaustive = True
    st.notes.append("every boundary of every listed scenario x every fault kind was executed (exhaustive over that finite set); "
                    "the scenario list itself is a chosen matrix")
    # sample: one trace
    return st
