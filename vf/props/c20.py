"""C20 — any text is either read or cleanly refused; tools never raise.

Generators: (i) every sequence of <=4 symbols over a 30-symbol alphabet of lexemes incl. newline / indent / fence /
envelope / separator symbols (exhaustive; thorough adds a seeded sample of length 5 and 6); (ii) Hypothesis text over all
of Unicode without surrogates, <=300 characters, and byte-ish mixtures of OCTAVE punctuation; (iii) span mutations
(delete / insert / duplicate / transpose / truncate) of the packaged specs, schemas, primers and test fixtures; (iv) a
coverage-guided atheris campaign on the same entry function (thorough tier; its saved crashing inputs are replayed in quick);
(v) size-scaled families at n, 4n, 16n measured in CPU time; (vi) the four MCP tools called with well-typed arguments and
hostile content.
Oracle: tokenize / parse / parse_with_warnings / parse_meta_only return or raise LexerError / ParserError only
(RecursionError counts as foreign for bracket nesting <= 100); brackets deeper than 100 are refused with ParserError; every
tool call returns a dict with status or validation_status that json.dumps accepts; CPU time t(16n)/t(n) <= 40 or
t(16n)/t(4n) <= 6.5 (about n^1.35), evaluated only when t(16n) >= 100 ms and confirmed three times in fresh processes.
"""

from __future__ import annotations

import glob
import itertools
import json
import os
import random
import subprocess
import sys
import time
import traceback

from vf import tools
from vf.common import REPO, VERIF_HOME, Ctx, Failure, Stats, drive, run_sharded, scratch_dir

PROP = "C20"
LEVEL = "exploration"
RULE = (
    "(i) exhaustive: all sequences of <=3 symbols in quick (48k texts), <=4 in thorough (1.7M) over 36 symbols {A, b_c, 1, -2.5, 1.0.0, true, \"q s\", \", $V, [, ], ,, ::, :, ->, "
    "→, ∧, vs, §, #, @, <x>, {y}, space, 2 spaces, newline, tab, ```, ===D===, ===END===, ---, //c, \\}; thorough also every sequence of exactly 5 over a 30-symbol sub-alphabet (24.3M); a seeded sample of sequences of length 5-6 (quick 60k, thorough 1M). (ii) Hypothesis: Unicode text <=300 (no surrogates), punctuation soups, deep brackets (50-140), long number "
    "lexemes. (iii) 5 span mutations x ~40 packaged spec/schema/primer/fixture files x seeds. (iv) atheris (thorough, 8 forks x 6 min; "
    "quick replays the saved corpus). (v) 18 families x {n,4n,16n} CPU time. (vi) 4 tools x hostile content x flags, and histories of 2-4 octave_write calls on one path with structurally different documents (numbered / named / decimal section markers). Oracle: only "
    "LexerError/ParserError escape the reader, and it answers (10 CPU-second timer for inputs < 20 kB, a hang is confirmed with a 20 CPU-second limit in a fresh process); bracket depth >100 => ParserError; tools return JSON-serialisable envelopes with "
    "status or validation_status; t(16n)/t(n) <= 40 or t(16n)/t(4n) <= 6.5 when t(16n) >= 100 ms (n=500; thorough 1500), breach confirmed 3x in fresh processes; a family whose nine reads exceed 300 CPU-seconds is a violation outright. Non-trivial = text "
    "accepted by the tokenizer with >=1 structural token, or rejected with a positioned error at line > 1; distinct by text."
)
ASSUMPTIONS = [
    "text means str without lone surrogates (they cannot be encoded as UTF-8 and so cannot reach the tools over MCP/JSON)",
    "the documented nesting cap is the bracket cap of 100; deeper *block* nesting hitting Python's recursion limit is recorded as informational",
    "scaling is decided by CPU-time ratios over hand-chosen families; an exotic super-linear family outside them can be missed",
]

SYMS = ["A", "b_c", "1", "-2.5", "1.0.0", "true", '"q s"', '"', "$V", "[", "]", ",", "::", ":", "->", "→", "∧", "vs", "§", "#", "@", "<x>", "{y}", "<", ">", "A<b", " ", "  ",
        "\n", "\t", "```", "===D===", "===END===", "---", "//c", "\\"]


TOKEN_CONTEXTS = ["K::@@", "K::[@@", "K::[@@]\n", "K::[a,@@,b]\nL::1\n", "META:\n  K::[@@]\n", "K:\n  @@\n", "===D===\nK::[\n  a,\n@@\n  b\n]\n===END===\n"]
SYMS_NOT_IN_LEN5 = {"b_c", "-2.5", "  ", "$V", "@", "A<b"}


def own_errors():
    from octave_mcp.core.lexer import LexerError
    from octave_mcp.core.parser import ParserError

    return (LexerError, ParserError)


def bucket(e: BaseException) -> str:
    """(type, innermost octave_mcp frame) — one bucket per root cause, not per input."""
    tb = traceback.extract_tb(e.__traceback__)
    frame = next((f"{os.path.basename(fr.filename)}:{fr.name}" for fr in reversed(tb) if "octave_mcp" in fr.filename), "?")
    return f"{type(e).__name__}@{frame}"


class _Hang(BaseException):
    pass


def _alarm(signum, frame):
    raise _Hang()


# CPU-time limits (ITIMER_PROF counts this process's CPU seconds, so a loaded machine cannot trip them). Inputs below
# 20 kB are read in milliseconds; 10 CPU-seconds is three orders of magnitude above anything linear.
HANG_CPU = 10.0
HANG_CPU_AFTER_FIRST = 1.0   # once one hang is confirmed in this process, later cases are cut short and not reported again
TOOL_HANG_CPU = 30.0
_HANG_SEEN = [False]
_LAST_HUNG = [False]


def _guard_on(seconds: float) -> bool:
    import signal

    if not hasattr(signal, "SIGPROF"):
        return False
    try:
        signal.signal(signal.SIGPROF, _alarm)
    except ValueError:  # not in the main thread
        return False
    signal.setitimer(signal.ITIMER_PROF, seconds)
    return True


def _guard_off():
    import signal

    if hasattr(signal, "SIGPROF"):
        try:
            signal.setitimer(signal.ITIMER_PROF, 0)
        except Exception:
            pass


def read_all(text: str):
    """Run the four reader entry points. Returns (list of (entry, bucket, message), accepted: bool, positioned_late: bool)."""
    from octave_mcp.core.lexer import tokenize
    from octave_mcp.core.parser import parse, parse_meta_only, parse_with_warnings

    own = own_errors()
    bad = []
    accepted = False
    late = False
    guard = len(text) < 20000
    _LAST_HUNG[0] = False
    for name, fn in (("tokenize", lambda t: tokenize(t)), ("tokenize_lenient", lambda t: tokenize(t, lenient=True)), ("parse", parse),
                     ("parse_with_warnings", parse_with_warnings), ("parse_meta_only", parse_meta_only)):
        limit = HANG_CPU_AFTER_FIRST if _HANG_SEEN[0] else HANG_CPU
        try:
            if guard:
                guard = _guard_on(limit)
            fn(text)
            if name == "tokenize":
                accepted = True
        except _Hang:
            _guard_off()
            _LAST_HUNG[0] = True
            if _HANG_SEEN[0]:
                break
            # confirm in a fresh process (CPU-time limit there too) before calling it a hang
            if confirm_hang(text):
                _HANG_SEEN[0] = True
                bad.append((name, "Hang@reader", f"no answer within {HANG_CPU:.0f} CPU-seconds here and within 20 CPU-seconds in a fresh process for an input of {len(text)} characters"))
            break
        except own as e:
            if getattr(e, "line", 0) and e.line > 1:
                late = True
        except RecursionError as e:
            bad.append((name, "RecursionError@" + bucket(e).split("@", 1)[1], "recursion limit"))
        except BaseException as e:  # noqa: BLE001
            bad.append((name, bucket(e), repr(e)[:200]))
        finally:
            if guard:
                _guard_off()
    return bad, accepted, late


def confirm_hang(text: str) -> bool:
    """True iff a fresh interpreter spends more than 20 CPU-seconds in parse_with_warnings(text) (killed by RLIMIT_CPU)."""
    from vf.common import REPO_SRC

    code = ("import sys; sys.path.insert(0, sys.argv[1]); from octave_mcp.core.parser import parse_with_warnings\n"
            "from octave_mcp.core.lexer import tokenize\n"
            "t = sys.stdin.read()\n"
            "for f in (tokenize, parse_with_warnings):\n"
            "    try:\n        f(t)\n    except Exception:\n        pass\n")

    def limit():
        import resource

        resource.setrlimit(resource.RLIMIT_CPU, (20, 21))

    try:
        r = subprocess.run([sys.executable, "-c", code, REPO_SRC], input=text, text=True, timeout=600, capture_output=True, preexec_fn=limit)
        return r.returncode in (-24, -9)  # SIGXCPU / SIGKILL at the hard limit
    except Exception:  # wall-clock timeout or no subprocess: inconclusive, not a finding
        return False


def classify(entry: str, bk: str, text: str) -> str:
    """Known classes: narrow predicates over the input AND the escaping exception."""
    import re

    if bk.startswith("ValueError@") and re.search(r"\d{4301,}", text) and ("lexer.py" in bk):
        return "C20:int-lexeme-over-4300-digits-raises-ValueError"
    if bk.startswith("RecursionError@") and max_block_depth(text) > 150:
        return "C20:block-nesting-beyond-recursion-limit"
    if bk.startswith("OverflowError@") and re.search(r"\{\d{10,}", text):
        return "C20:regex-repeat-count-overflow-in-holographic-pattern"
    return f"C20:unlisted:{entry}:{bk}"


def max_block_depth(text: str) -> int:
    depth = 0
    for ln in text.split("\n"):
        s = ln.lstrip(" ")
        if s.endswith(":") and not s.endswith("::"):
            depth = max(depth, (len(ln) - len(s)) // 1 + 1)
    return depth


def has_structural(text: str) -> bool:
    return any(s in text for s in ("::", "===", "[", "§", "```", "---")) or ":\n" in text


def check_text(text: str, st: Stats | None, case_fn):
    bad, acc, late = read_all(text)
    out = []
    for entry, bk, msg in bad:
        out.append((classify(entry, bk, text), f"{entry} raised {bk}: {msg} | input={text[:300]!r}{'...' if len(text) > 300 else ''} (len {len(text)})"))
    return out, (acc and has_structural(text)) or late


# ---------------------------------------------------------------------------------------------- (i) token sequences
def shard_tokens(ctx: Ctx, sh: int, nshards: int, max_len: int, sample: int) -> Stats:
    st = Stats()
    n = len(SYMS)
    i = 0
    for ln in range(1, max_len + 1):
        for tup in itertools.product(range(n), repeat=ln):
            i += 1
            if i % nshards != sh:
                continue
            text = "".join(SYMS[k] for k in tup)
            fails, nt = check_text(text, st, None)
            st.evaluations += 1
            if nt:
                st.nontrivial_exact += 1
                if st.nontrivial_exact % 20011 == 1 and len(st.samples) < 3:
                    st.samples.append({"text": text})
            for sig, det in fails:
                st.fail(sig, {"kind": "tokens", "syms": list(tup)}, det)
    # the same sequences where a VALUE is expected: after an assignment operator, as the items of a list (closed and left
    # open), inside META, and as the body of a block (<= 2 symbols; thorough <= 3) - a bare sequence at column 0 never puts
    # an envelope line, a separator or an operator in value position
    for ln in range(1, (2 if ctx.tier != "thorough" else 3) + 1):
        for tup in itertools.product(range(n), repeat=ln):
            for cj in range(len(TOKEN_CONTEXTS)):
                i += 1
                if i % nshards != sh:
                    continue
                text = TOKEN_CONTEXTS[cj].replace("@@", "".join(SYMS[k] for k in tup))
                fails, nt = check_text(text, st, None)
                st.evaluations += 1
                st.labels["tokseq_in_value_context"] += 1
                if nt:
                    st.nontrivial_exact += 1
                for sig, det in fails:
                    st.fail(sig, {"kind": "tokens", "syms": list(tup), "ctx": cj}, det)
    if ctx.tier == "thorough":
        # the listed bound: every sequence of exactly 5 symbols over a 30-symbol alphabet (24.3 M; the six symbols left out
        # are variants of kept ones: a second identifier, number, blank run, the variable, @ and the open annotation)
        idx30 = [k for k, sym in enumerate(SYMS) if sym not in SYMS_NOT_IN_LEN5]
        for tup in itertools.product(idx30, repeat=5):
            i += 1
            if i % nshards != sh:
                continue
            text = "".join(SYMS[k] for k in tup)
            fails, nt = check_text(text, st, None)
            st.evaluations += 1
            if nt:
                st.nontrivial_exact += 1
            for sig, det in fails:
                st.fail(sig, {"kind": "tokens", "syms": list(tup)}, det)
        st.labels["tokseq_len5_alphabet30_exhaustive"] += 1
    if sample:
        rnd = random.Random(ctx.shard_seed(sh, 5))
        for _ in range(sample // nshards):
            tup = tuple(rnd.randrange(n) for _ in range(rnd.choice((5, 6))))
            text = "".join(SYMS[k] for k in tup)
            fails, nt = check_text(text, st, None)
            st.case({"text": text}, nontrivial=nt, labels=["tokseq_sampled"])
            for sig, det in fails:
                st.fail(sig, {"kind": "tokens", "syms": list(tup)}, det)
    return st


# ---------------------------------------------------------------------------------------------- (ii) generated text
def text_strategy():
    from hypothesis import strategies as hs

    uni = hs.text(alphabet=hs.characters(blacklist_categories=("Cs",)), max_size=300)
    soup = hs.lists(hs.sampled_from(SYMS + ["KEY", "META:", "\n  ", "\n    ", "\r\n", "\r", "\x00", "é", "é", "😀", '"""', "'", "%", "(", ")", "=", "==", "===", "`", "``",
                                            "<", ">", "<->", "+", "~", "|", "&", "1e400", "-", "0x1", "..", "$", "$1:x", "﻿", " ", "OCTAVE::5.1.0\n", "§1::X\n"]),
                    max_size=60).map("".join)
    deep = hs.builds(lambda d, inner, close: "===D===\nK::" + "[" * d + inner + ("]" * d if close else "") + "\n===END===\n", hs.integers(50, 140), hs.sampled_from(["", "a", "a,b", '"x"']), hs.booleans())
    blocks = hs.builds(lambda d: "===D===\n" + "".join(" " * i + f"B{i}:\n" for i in range(d)) + " " * d + "X::1\n===END===\n", hs.integers(2, 100))
    nums = hs.builds(lambda n, d: "===D===\nK::" + d * n + "\n===END===\n", hs.integers(1, 400), hs.sampled_from(["9", "0", "1.", "-1", "1e", "1.2.3."]))
    unterminated = hs.builds(lambda q, body, pre: "===D===\n" + pre + q + body + "\n===END===\n", hs.sampled_from(['"', '"""', "```\n", "K::[", "§"]),
                             hs.text(alphabet="ab \\x.-_:/é", min_size=20, max_size=80), hs.sampled_from(["K::", "K::[a,", "", "META:\n  T::"]))
    holo = hs.sampled_from(['===D===\nK::["x"∧REGEX["a{3}"]]\n===END===\n', '===D===\nK::["x"∧REGEX["("]]\n===END===\n', '===D===\nK::["x"∧RANGE[5,1]]\n===END===\n',
                            '===D===\nK::["x"∧ENUM[]]\n===END===\n', '===D===\nK::["x"∧LANG[]]\n===END===\n', '===D===\nK::["x"∧TYPE[NOPE]→§]\n===END===\n',
                            '===D===\nK::[∧REQ]\n===END===\n', '===D===\nK::["x"∧∧REQ]\n===END===\n', '===D===\nK::["x"∧MAX_LENGTH[-1]]\n===END===\n'])
    return hs.one_of(uni, soup, soup, deep, blocks, nums, holo, unterminated)


def shard_text(ctx: Ctx, sh: int, nshards: int, n: int) -> Stats:
    st = Stats()

    def one(text):
        fails, nt = check_text(text, st, None)
        st.case({"text": text[:200]}, nontrivial=nt, labels=["gen_text"], key=text)
        for sig, det in fails:
            st.fail(sig, {"kind": "text", "text": text}, det)
        for sig, det in tool_calls(text, sh):
            st.fail(sig, {"kind": "text", "text": text}, det)

    drive(text_strategy(), one, ctx.shard_seed(sh, 7), n, chunk=4000)
    return st


# ---------------------------------------------------------------------------------------------- (iii) span mutations
def corpus_files():
    pats = ["src/octave_mcp/resources/specs/*.oct.md", "src/octave_mcp/resources/specs/schemas/*.oct.md", "src/octave_mcp/schemas/builtin/*.oct.md",
            "src/octave_mcp/resources/primers/*.oct.md", "src/octave_mcp/resources/skills/*/*.md", "tests/fixtures/*.oct.md", "tests/fixtures/*/*.oct.md", "AGENTS.oct.md"]
    out = []
    for p in pats:
        out.extend(sorted(glob.glob(os.path.join(REPO, p))))
    return out


def mutate(text: str, rnd: random.Random) -> str:
    if not text:
        return text
    k = rnd.randrange(6)
    a = rnd.randrange(len(text))
    b = min(len(text), a + rnd.choice((1, 1, 2, 5, 20, 200)))
    if k == 0:
        return text[:a] + text[b:]
    if k == 1:
        return text[:a] + rnd.choice(SYMS + ["\n  ", "\x00", '"""', "(", "é"]) + text[a:]
    if k == 2:
        return text[:b] + text[a:b] + text[b:]
    if k == 3:
        c = min(len(text), b + (b - a))
        return text[:a] + text[b:c] + text[a:b] + text[c:]
    if k == 4:
        return text[:a]
    return text[:a] + text[a:b][::-1] + text[b:]


def shard_mut(ctx: Ctx, sh: int, nshards: int, per_file: int) -> Stats:
    st = Stats()
    files = corpus_files()
    rnd = random.Random(ctx.shard_seed(sh, 9))
    for fi, path in enumerate(files):
        if fi % nshards != sh:
            continue
        try:
            base = open(path, encoding="utf-8").read()
        except Exception:
            continue
        for j in range(per_file):
            t = base
            for _ in range(rnd.choice((1, 1, 2, 3))):
                t = mutate(t, rnd)
            fails, nt = check_text(t, st, None)
            st.case({"file": os.path.relpath(path, REPO), "mutation": j}, nontrivial=nt, labels=["span_mutation"], key=t)
            for sig, det in fails:
                st.fail(sig, {"kind": "text", "text": t}, det)
            if j % 10 == 0:
                for sig, det in tool_calls(t, sh):
                    st.fail(sig, {"kind": "text", "text": t}, det)
    return st


# ---------------------------------------------------------------------------------------------- (vi) tools
_TOOL_N = [0]


def tool_calls(text: str, sh: int):
    """Every tool with this content; returns failures."""
    _TOOL_N[0] += 1
    k = _TOOL_N[0]
    out = []
    calls = []
    flags = {"fix": bool(k & 1), "grammar_hint": bool(k & 2), "diff_only": bool(k & 4), "compact": bool(k & 8)}
    calls.append(("octave_validate", lambda: tools.validate(content=text, schema=["META", "SKILL", "NOPE"][k % 3], profile=["STRICT", "STANDARD", "LENIENT", "ULTRA"][k % 4], **{a: b for a, b in flags.items() if b})))
    calls.append(("octave_eject", lambda: tools.eject(content=text, schema="META", mode=["canonical", "authoring", "executive", "developer"][k % 4], format=["octave", "json", "yaml", "markdown", "gbnf"][k % 5])))
    calls.append(("octave_compile_grammar", lambda: tools.compile_grammar(content=text, format=["gbnf", "json_schema"][k % 2])))
    p = os.path.join(_SCRATCH[0], f"t{sh}.oct.md")
    calls.append(("octave_write", lambda: tools.write(target_path=p, content=text, lenient=bool(k & 1), corrections_only=bool(k & 2), schema=[None, "META", "SKILL"][k % 3] or "META",
                                                       parse_error_policy=["error", "salvage"][(k >> 2) & 1])))
    if k % 7 == 0:
        calls.append(("octave_write_changes", lambda: tools.write(target_path=p, changes={"K": text[:50], "META.X": [text[:10]]})))
    if _LAST_HUNG[0]:
        return out  # the readers did not answer for this text (reported there); every tool starts with the same readers
    for name, fn in calls:
        g = len(text) < 20000 and _guard_on(TOOL_HANG_CPU)
        try:
            r = fn()
        except _Hang:
            out.append((f"C20:unlisted:{name}:hang", f"{name} used more than {TOOL_HANG_CPU:.0f} CPU-seconds on a content of {len(text)} characters that the readers answer at once | content={text[:300]!r}"))
            tools.reset()
            continue
        except BaseException as e:  # noqa: BLE001
            bk = bucket(e)
            out.append((classify_tool(name, bk, text), f"{name} raised {bk}: {e!r} | content={text[:300]!r} (len {len(text)})"))
            continue
        finally:
            if g:
                _guard_off()
        if not isinstance(r, dict) or not ("status" in r or "validation_status" in r):
            out.append((f"C20:unlisted:{name}:envelope-without-status", f"{name} returned {type(r).__name__} with keys {sorted(r)[:8] if isinstance(r, dict) else ''}"))
            continue
        try:
            json.dumps(r)
        except (TypeError, ValueError) as e:
            out.append((f"C20:unlisted:{name}:envelope-not-json-serialisable", f"{name}: {e!r} | content={text[:200]!r}"))
    return out


def classify_tool(name, bk, text) -> str:
    if name == "octave_eject" and bk.startswith("TypeError@") and "∧" in text and "[" in text:
        return "C20:eject-json-yaml-raises-on-holographic-value"
    return f"C20:unlisted:{name}:raised:{bk}"


_SCRATCH = [None]


# ---------------------------------------------------------------------------------------------- (vi-b) call histories on one path
def shard_histories(ctx: Ctx, sh: int, nshards: int, n: int) -> Stats:
    """Sequences of 2-4 tool calls on ONE path with structurally different documents (numbered, suffixed, named and decimal
    section markers; blocks; lists; zones): a later call sees what an earlier one wrote (diff / metrics / inheritance code)."""
    from hypothesis import strategies as hs

    from vf import docprop, model

    st = Stats()

    def retag(doc, k):
        ids = ["CONTEXT", "1.5", "2b", "DEFS", "10", "0", "A_B"]

        def rec(nodes, j=[k]):
            out = []
            for nd in nodes:
                if nd["t"] == "section":
                    j[0] += 1
                    nd = {**nd, "id": ids[j[0] % len(ids)], "kids": rec(nd["kids"])}
                elif nd["t"] == "block":
                    nd = {**nd, "kids": rec(nd["kids"])}
                out.append(nd)
            return out
        return {**doc, "body": rec(doc["body"])}

    docs = hs.lists(hs.tuples(model.document(depth=2, zones=True, comments=True, max_nodes=4, avoid=frozenset({"cr"})), hs.integers(0, 6), hs.integers(0, 3)), min_size=2, max_size=4)
    with scratch_dir() as root:
        p = os.path.join(root, "h.oct.md")

        def one(seq):
            if os.path.exists(p):
                os.unlink(p)
            texts = []
            for doc, k, mode in seq:
                text, _ = docprop.render_case(retag(doc, k), {"k": "len", "seed": k, "level": 0.5} if mode == 1 else {"k": "canon"})
                texts.append(text)
                try:
                    if mode == 2 and os.path.exists(p):
                        r = tools.write(target_path=p, changes={"ADDED": k, "META.M": None})
                    elif mode == 3 and os.path.exists(p):
                        r = tools.write(target_path=p)
                    else:
                        r = tools.write(target_path=p, content=text, lenient=(mode == 1), schema="META")
                    json.dumps(r)
                    if "status" not in r:
                        st.fail("C20:unlisted:octave_write:envelope-without-status", {"kind": "history", "texts": texts}, "no status")
                except BaseException as e:  # noqa: BLE001
                    st.fail(f"C20:unlisted:octave_write:raised-in-history:{bucket(e)}", {"kind": "history", "texts": texts, "modes": [m for _, _, m in seq]},
                            f"call {len(texts)} of a history on one path raised {bucket(e)}: {e!r} | texts={[t[:200] for t in texts]!r}")
                    break
            st.case({"history": [t[:120] for t in texts]}, nontrivial=True, labels=["write_history"], key=texts)

        drive(docs, one, ctx.shard_seed(sh, 13), n)
    return st



# ---------------------------------------------------------------------------------------------- (vi-c) typed holes
HOLE_VALUES = [
    "1e999", "-1e400", "1e-999", "0", "-0", "007", "9" * 30, "-2.5", "1.0.0", "true", "false", "null", "[]", "[[]]", "[a,b]", "[k::v]", "[k::v,k::w]",
    '""', '"x"', '"a b"', '"line\\nbreak"', '"\u00e9\u2028\x85"', "x", "a->b", "a+b", "NAME<q>", "NAME[a]", "§1", "§", "$V", "$1:x", '["x"∧REQ]', '["x"∧REGEX["("]]',
    '["x"∧ENUM[]]', "[null]", "[true,1,\"s\"]", "A::B", "a b c", "#tag", "@x", "//c", "<x>", "2001-02-30", "T", "SKILL", "META",
    '["FIELD[X]::REQ"]', '["FIELD[X]::REQ∧ENUM[A,B]","FIELD[Y]::TYPE[NUMBER]"]', '["nonsense"]', "[FIELD[X]::REQ]", '"FIELD[X]::REQ"',
]
HOLE_TEMPLATES = {
    "top": "===D===\nMETA:\n  TYPE::T\nK::{v}\n===END===\n",
    "meta_type": '===D===\nMETA:\n  TYPE::{v}\n  VERSION::"1"\nK::1\n===END===\n',
    "meta_type_contract": '===D===\nMETA:\n  TYPE::{v}\n  CONTRACT::["FIELD[X]::REQ"]\nX::1\n===END===\n',
    "meta_version": "===D===\nMETA:\n  TYPE::T\n  VERSION::{v}\n===END===\n",
    "meta_version_contract": '===D===\nMETA:\n  TYPE::T\n  VERSION::{v}\n  CONTRACT::["FIELD[X]::REQ"]\n===END===\n',
    "meta_contract": "===D===\nMETA:\n  TYPE::T\n  CONTRACT::{v}\nX::1\n===END===\n",
    "meta_status": "===D===\nMETA:\n  TYPE::T\n  STATUS::{v}\n===END===\n",
    "meta_other": "===D===\nMETA:\n  TYPE::T\n  ID::{v}\n  GRAMMAR::{v}\n===END===\n",
    "meta_inline": "===D===\nMETA::{v}\nK::1\n===END===\n",
    "nested": "===D===\nB:\n  C:\n    K::{v}\n===END===\n",
    "list_item": "===D===\nK::[a,{v},b]\n===END===\n",
    "map_value": "===D===\nK::[k::{v}]\n===END===\n",
    "section": "===D===\n§1::S\n  K::{v}\n===END===\n",
    "section_name": "===D===\n§1::{v}\n  K::1\n===END===\n",
    "policy": "===D===\nMETA:\n  TYPE::T\nPOLICY:\n  VERSION::{v}\n  UNKNOWN_FIELDS::{v}\n  TARGETS::{v}\nFIELDS:\n  X::{v}\n===END===\n",
    "fields_only": '===D===\nFIELDS:\n  X::{v}\n  Y::["a"∧REQ]\n===END===\n',
    "filter_keys": "===D===\nSTATUS::{v}\nRISKS::{v}\nTESTS:\n  CI::{v}\n===END===\n",
    "frontmatter": "---\nname: {y}\ndescription: {y}\nallowed-tools: {y}\ndate: {y}\n---\n\n===S===\nMETA:\n  TYPE::SKILL\n  VERSION::\"1\"\n===END===\n",
    "frontmatter_whole": "---\n{y}\n---\n\n===S===\nMETA:\n  TYPE::SKILL\n  VERSION::\"1\"\n===END===\n",
    "skill_meta": "---\nname: x\ndescription: y\nallowed-tools: [a]\n---\n\n===S===\nMETA:\n  TYPE::SKILL\n  VERSION::{v}\n  STATUS::{v}\n===END===\n",
}
HOLE_YAML = ["- a\n- b", "a: 1\nb: [x", "# only a comment", "42", "title line", "name: x\nname: y", "? [a, b]\n: c", "x", "[a]", "2001-02-30", "2001-02-28", "12:30:99", "!!binary x", "&a [*a]", "{a: 1}", "~", "1e999", ".inf", ".nan", "0o7", "'", '"', "- x", "? x", "%", "@", "`", "|", ">", "*a", "!!python/none x", "",
             "2001-02-28T25:00:00Z", "0x", "1_000", "yes"]


def hole_calls(text: str, root: str):
    """Every tool, every mode/format flag, on one content."""
    calls = []
    for sch in ("META", "SKILL", "NOPE"):
        calls.append((f"octave_validate[{sch}]", lambda sch=sch: tools.validate(content=text, schema=sch, fix=True, grammar_hint=True)))
    calls.append(("octave_validate[diff]", lambda: tools.validate(content=text, schema="META", diff_only=True, compact=True, profile="LENIENT")))
    for mode in ("canonical", "authoring", "executive", "developer"):
        for fmt in ("octave", "json", "yaml", "markdown", "gbnf"):
            calls.append((f"octave_eject[{mode},{fmt}]", lambda mode=mode, fmt=fmt: tools.eject(content=text, schema="META", mode=mode, format=fmt)))
    calls.append(("octave_eject[template]", lambda: tools.eject(content=None, schema="META", mode="canonical", format="octave")))
    for fmt in ("gbnf", "json_schema"):
        calls.append((f"octave_compile_grammar[{fmt}]", lambda fmt=fmt: tools.compile_grammar(content=text, format=fmt)))
    p = os.path.join(root, "hole.oct.md")
    calls.append(("octave_write[strict]", lambda: tools.write(target_path=p, content=text, schema="META", grammar_hint=True)))
    calls.append(("octave_write[lenient]", lambda: tools.write(target_path=p, content=text, lenient=True, schema="SKILL", parse_error_policy="salvage")))
    calls.append(("octave_write[dry]", lambda: tools.write(target_path=p, content=text, corrections_only=True)))
    calls.append(("octave_write[changes]", lambda: tools.write(target_path=p, changes={"K": {"$op": "DELETE"}, "META.TYPE": "U", "NEW": [1, "a"]})))
    calls.append(("octave_write[normalize]", lambda: tools.write(target_path=p)))
    return calls


def shard_holes(ctx: Ctx, sh: int, nshards: int) -> Stats:
    """Product of positions whose value the tools interpret (META fields, CONTRACT, POLICY/FIELDS, filter keys, frontmatter
    fields) and values of every kind (out-of-range numbers, lists, maps, holographic patterns, operators, wrong types),
    through every tool with every mode/format flag."""
    st = Stats()
    combos = [(tn, v) for tn in sorted(HOLE_TEMPLATES) for v in (HOLE_YAML if tn.startswith("frontmatter") else HOLE_VALUES)]
    with scratch_dir() as root:
        for i, (tn, v) in enumerate(combos):
            if i % nshards != sh:
                continue
            text = HOLE_TEMPLATES[tn].replace("{v}", v).replace("{y}", v)
            fails, _ = check_text(text, st, None)
            n_ok = 0
            for name, fn in hole_calls(text, root):
                g = _guard_on(TOOL_HANG_CPU)
                try:
                    r = fn()
                    if not isinstance(r, dict) or not ("status" in r or "validation_status" in r):
                        fails.append((f"C20:unlisted:{name.split('[')[0]}:envelope-without-status", f"{name} returned {type(r).__name__}"))
                        continue
                    json.dumps(r)
                    n_ok += 1
                except _Hang:
                    fails.append((f"C20:unlisted:{name.split('[')[0]}:hang", f"{name} used more than {TOOL_HANG_CPU:.0f} CPU-seconds | content={text!r}"))
                    tools.reset()
                except BaseException as e:  # noqa: BLE001
                    bk = bucket(e)
                    fails.append((classify_tool(name.split("[")[0], bk, text).replace(":raised:", ":hole:raised:"), f"{name} raised {bk}: {e!r} | content={text!r}"))
                finally:
                    if g:
                        _guard_off()
                st.evaluations += 1
            st.case({"hole": tn, "value": v, "text": text}, nontrivial=True, labels=["hole_" + tn], key=text)
            st.labels["hole_tool_calls_answered"] += n_ok
            seen = set()
            for sig, det in fails:
                if sig not in seen:
                    seen.add(sig)
                    st.fail(sig, {"kind": "hole", "template": tn, "value": v}, det)
    return st

# ---------------------------------------------------------------------------------------------- (v) scaling
def families():
    return {
        "many_lines": lambda n: "===D===\n" + "".join(f"K{i}::v{i}\n" for i in range(n)) + "===END===\n",
        "long_list": lambda n: "===D===\nK::[" + ",".join(f"a{i}" for i in range(n)) + "]\n===END===\n",
        "long_string": lambda n: '===D===\nK::"' + "x" * (n * 400) + '"\n===END===\n',
        "quote_runs": lambda n: "===D===\nK::" + '"' * (n * 20) + "\n===END===\n",
        "unterminated_triple": lambda n: '===D===\nK::"""' + "abc\n" * (n * 40),
        "unterminated_string": lambda n: '===D===\nK::"' + "a" * (n * 200),
        "unterminated_string_words": lambda n: '===D===\nK::"' + "ab c, " * (n * 40) + "\n===END===\n",
        "unterminated_escapes": lambda n: '===D===\nK::"' + "\\\\x" * (n * 60) + "\n",
        "open_quote_per_line": lambda n: "===D===\n" + "".join(f'K{i}::"open {i}\n' for i in range(n)) + "===END===\n",
        "multi_word": lambda n: "===D===\nK::" + " ".join(f"w{i}" for i in range(n)) + "\n===END===\n",
        "deep_blocks_100": lambda n: "===D===\n" + "".join(("".join(" " * i + f"B{i}:\n" for i in range(60)) + " " * 60 + "X::1\n") for _ in range(max(1, n // 60))) + "===END===\n",
        "brackets_99": lambda n: "===D===\n" + "".join("K::" + "[" * 40 + "a" + "]" * 40 + "\n" for _ in range(max(1, n // 40))) + "===END===\n",
        "many_comments": lambda n: "===D===\n" + "".join(f"// c{i}\nK{i}::1 // t\n" for i in range(n)) + "===END===\n",
        "sections": lambda n: "===D===\n" + "".join(f"§{i}::S{i}\n  K::1\n" for i in range(n)) + "===END===\n",
        "frontmatter": lambda n: "---\n" + "".join(f"k{i}: v\n" for i in range(n)) + "---\n===D===\nK::1\n===END===\n",
        "blank_lines": lambda n: "===D===\n" + "\n" * n + "K::1\n===END===\n",
        "percent_runs": lambda n: "===D===\nK::" + "%" * (n * 100) + "\n===END===\n",
        "annotations": lambda n: "===D===\n" + "".join(f"K{i}::NAME<q{i}>\n" for i in range(n)) + "===END===\n",
        "zones_plain": lambda n: "===D===\n" + "".join(f"K{i}::\n```\nx\n```\n" for i in range(n)) + "===END===\n",
        # duplicate_keys is super-linear on the pinned tree (known finding); the next four were (fixed: 9acc6a2, 064ef5b)
        "duplicate_keys": lambda n: "===D===\n" + "K::1\n" * n + "===END===\n",
        "zones_with_tabs": lambda n: "===D===\n" + "".join(f"K{i}::\n```\n\tx\n```\n" for i in range(n)) + "===END===\n",
        "operator_chain": lambda n: "===D===\nK::" + "→".join(f"a{i}" for i in range(n)) + "\n===END===\n",
        "flow_lines": lambda n: "===D===\n" + "".join(f"K{i}::A{i}->B{i}\n" for i in range(n)) + "===END===\n",
        "constraint_chain_in_list": lambda n: "===D===\nK::[" + "&".join(f"a{i}" for i in range(n)) + ",x]\n===END===\n",
    }


SCALING_CPU_LIMIT = 300
KNOWN_SLOW = {"duplicate_keys"}
_TIMER = r'''
import sys, time, json
sys.path.insert(0, sys.argv[1]); sys.path.insert(0, sys.argv[2])
from vf.props import c20
from octave_mcp.core.parser import parse_with_warnings
fam = c20.families()[sys.argv[3]]
out = {}
for n in json.loads(sys.argv[4]):
    text = fam(n)
    best = None
    for _ in range(3):
        t0 = time.process_time()
        try:
            parse_with_warnings(text)
        except Exception:
            pass
        dt = time.process_time() - t0
        best = dt if best is None else min(best, dt)
    out[str(n)] = best
print(json.dumps(out))
'''


def time_family(name: str, ns):
    from vf.common import REPO_SRC

    def limit():
        import resource

        resource.setrlimit(resource.RLIMIT_CPU, (SCALING_CPU_LIMIT, SCALING_CPU_LIMIT + 1))

    try:
        r = subprocess.run([sys.executable, "-c", _TIMER, REPO_SRC, VERIF_HOME, name, json.dumps(ns)], capture_output=True, text=True, timeout=1800,
                           env={**os.environ, "PYTHONHASHSEED": "0"}, preexec_fn=limit)
    except subprocess.TimeoutExpired:
        return None
    if r.returncode in (-24, -9):
        return "cpu-limit"
    if r.returncode != 0:
        return None
    return {int(k): v for k, v in json.loads(r.stdout.strip().splitlines()[-1]).items()}


def super_linear(t, ns) -> bool:
    """CPU time (best of three) at n, 4n, 16n: measurable (>= 0.1 s at 16n), more than 40x overall AND more than 6.5x over
    the last factor of four. Linear readers sit at 14-22x / 3.5-4.5x, the quadratic ones found so far at >50x / >10x."""
    if t[ns[2]] < 0.1:
        return False
    return t[ns[2]] / max(t[ns[0]], 1e-6) > 40 and t[ns[2]] / max(t[ns[1]], 1e-6) > 6.5


def shard_scaling(ctx: Ctx, sh: int, nshards: int, base_n: int) -> Stats:
    st = Stats()
    for i, name in enumerate(sorted(families())):
        if i % nshards != sh:
            continue
        ns = [base_n, 4 * base_n, 16 * base_n]
        t = time_family(name, ns)
        st.evaluations += 3
        st.nontrivial_exact += 1
        st.labels["scaling_families"] += 1
        if t is None:
            st.notes.append(f"scaling family {name}: timing subprocess failed (inconclusive)")
            continue
        if t == "cpu-limit":
            # nine reads of inputs of at most 16*base_n units did not finish in SCALING_CPU_LIMIT CPU-seconds: every
            # linear (and every known quadratic) family needs well under a minute in total
            sig = f"C20:super-linear:{name}" if name in KNOWN_SLOW else f"C20:unlisted:no-answer-within-cpu-limit:{name}"
            st.fail(sig, {"kind": "scaling", "family": name, "n": base_n}, f"family {name}: reading inputs of {ns} units did not finish within {SCALING_CPU_LIMIT} CPU-seconds")
            continue
        ratio = t[ns[2]] / max(t[ns[0]], 1e-6)
        step = t[ns[2]] / max(t[ns[1]], 1e-6)
        st.notes.append(f"scaling {name}: t(n={ns[0]})={t[ns[0]] * 1000:.1f}ms t(4n)={t[ns[1]] * 1000:.1f}ms t(16n)={t[ns[2]] * 1000:.1f}ms ratio={ratio:.1f} last-step={step:.1f}")
        if not super_linear(t, ns):
            continue
        # confirm three times in fresh processes
        confirmed = 0
        for _ in range(3):
            t2 = time_family(name, ns)
            if isinstance(t2, dict) and super_linear(t2, ns):
                confirmed += 1
        if confirmed == 3:
            sig = f"C20:super-linear:{name}" if name in KNOWN_SLOW else f"C20:unlisted:super-linear:{name}"
            st.fail(sig, {"kind": "scaling", "family": name, "n": base_n},
                    f"family {name}: CPU time grows {ratio:.0f}x for 16x the input and {step:.1f}x for the last 4x (limits 40x and 6.5x, i.e. about n^1.35): {t}")
    return st


# ---------------------------------------------------------------------------------------------- (iv) fuzz corpus replay / campaign
def probes(st: Stats):
    """Extreme but legal texts (sizes beyond what the random generators reach)."""
    texts = {
        "int_4400_digits": "===D===\nK::" + "7" * 4400 + "\n===END===\n",
        "float_exponent_huge": "===D===\nK::1e" + "9" * 400 + "\n===END===\n",
        "regex_repeat_overflow": '===D===\nK::["x"∧REGEX["a{99999999999}"]]\n===END===\n',
        "blocks_1200_deep": "===D===\n" + "".join(" " * i + f"B{i}:\n" for i in range(1200)) + " " * 1200 + "X::1\n===END===\n",
        "brackets_100": "===D===\nK::" + "[" * 100 + "a" + "]" * 100 + "\n===END===\n",
        "brackets_101": "===D===\nK::" + "[" * 101 + "a" + "]" * 101 + "\n===END===\n",
        "brackets_5000_unclosed": "===D===\nK::" + "[" * 5000 + "\n===END===\n",
        "line_1MB": "===D===\nK::" + "a" * 1_000_000 + "\n===END===\n",
        "nul_bytes": "===D===\nK::\x00\x00\n===END===\n",
        "bom_crlf": "\ufeff===D===\r\nK::1\r\n===END===\r\n",
    }
    from octave_mcp.core.parser import parse

    own = own_errors()
    for name, text in texts.items():
        fails, nt = check_text(text, st, None)
        st.case({"probe": name}, nontrivial=True, labels=["probe_" + name], key=text)
        for sig, det in fails:
            st.fail(sig, {"kind": "probe", "name": name}, det)
        if name == "brackets_101":
            try:
                parse(text)
                st.fail("C20:unlisted:bracket-depth-over-100-accepted", {"kind": "probe", "name": name}, "101 nested brackets were accepted; the documented cap is 100")
            except own:
                pass
            except BaseException:  # noqa: BLE001
                pass
    return texts


def tool_probes(st: Stats):
    """Well-typed calls with contents chosen for the tools' own code paths (not the reader's)."""
    cases = {
        "gbnf_contract_type_not_string": ("eject", {"content": '===D===\nMETA:\n  TYPE::[a,b]\n  CONTRACT::["FIELD[X]::REQ"]\n===END===\n', "schema": "META", "format": "gbnf"}),
        "gbnf_contract_type_number": ("compile", {"content": '===D===\nMETA:\n  TYPE::5\n  CONTRACT::["FIELD[X]::REQ"]\n===END===\n', "format": "gbnf"}),
        "gbnf_contract_type_null": ("compile", {"content": '===D===\nMETA:\n  TYPE::null\n  CONTRACT::["FIELD[X]::REQ∧ENUM[A,B]"]\n===END===\n', "format": "json_schema"}),
        "skill_frontmatter_bad_date": ("validate", {"content": "---\nname: x\ndescription: y\nallowed-tools: [a]\ndate: 2001-02-30\n---\n\n===S===\nMETA:\n  TYPE::SKILL\n  VERSION::\"1.0\"\n===END===\n", "schema": "SKILL"}),
        "skill_frontmatter_not_yaml": ("validate", {"content": "---\n: : :\n\t- x\n{{{\n---\n\n===S===\nMETA:\n  TYPE::SKILL\n===END===\n", "schema": "SKILL"}),
        "skill_frontmatter_anchor_bomb": ("validate", {"content": "---\na: &a [x,x]\nb: &b [*a,*a]\nc: [*b,*b]\nname: !!python/object/apply:os.system ['true']\n---\n\n===S===\nMETA:\n  TYPE::SKILL\n===END===\n", "schema": "SKILL"}),
        "eject_json_nonfinite": ("eject", {"content": "===D===\nK::1e999\nL::[-1e400,2]\n===END===\n", "schema": "META", "format": "json"}),
        "eject_yaml_nonfinite": ("eject", {"content": "===D===\nK::1e999\n===END===\n", "schema": "META", "format": "yaml"}),
        "eject_template": ("eject", {"content": None, "schema": "META"}),
        "validate_holo_meta": ("validate", {"content": '===D===\nMETA:\n  TYPE::["x"∧REQ]\n  VERSION::[1∧OPT→§SELF]\n===END===\n', "schema": "META", "fix": True}),
        "write_mutations_nested": ("write", {"target_path": os.path.join(_SCRATCH[0] or "/var/tmp", "tp.oct.md"), "content": "===D===\nK::1\n===END===\n",
                                             "mutations": {"A": {"b": {"c": [1, {"d": None}]}}, "B": [], "C": ""}}),
    }
    for name, (tool, args) in cases.items():
        fn = {"eject": tools.eject, "compile": tools.compile_grammar, "validate": tools.validate, "write": tools.write}[tool]
        st.case({"tool_probe": name}, nontrivial=True, labels=["tool_probe"], key=name)
        try:
            r = fn(**args)
            json.dumps(r)
            if not isinstance(r, dict) or not ("status" in r or "validation_status" in r):
                st.fail(f"C20:unlisted:{tool}:envelope-without-status", {"kind": "tool_probe", "name": name}, f"{name}: {type(r).__name__}")
        except BaseException as e:  # noqa: BLE001
            st.fail(f"C20:unlisted:tool-probe:{name}:{bucket(e)}", {"kind": "tool_probe", "name": name}, f"octave_{tool} raised {bucket(e)}: {e!r} | args={ {k: (v if k != 'content' else (v or '')[:200]) for k, v in args.items()} }")


def fuzz_corpus(st: Stats):
    for path in sorted(glob.glob(os.path.join(VERIF_HOME, "regress", "C20", "fuzz", "*"))):
        try:
            text = open(path, "rb").read().decode("utf-8", "replace").replace("\ud800", "")
        except Exception:
            continue
        fails, nt = check_text(text, st, None)
        st.case({"fuzz_input": os.path.basename(path)}, nontrivial=nt, labels=["fuzz_corpus_replay"], key=text)
        for sig, det in fails:
            st.fail(sig, {"kind": "text", "text": text}, det)


def fuzz_campaign(ctx: Ctx, st: Stats, seconds: int, forks: int):
    """Coverage-guided campaign (thorough). New crashing inputs are copied to replays/ as text cases by the target itself."""
    target = os.path.join(VERIF_HOME, "vf", "fuzz_c20.py")
    deps = os.path.join(VERIF_HOME, ".deps")
    if not os.path.isdir(os.path.join(deps, "atheris")):
        st.notes.append("atheris is not installed (setup.sh could not install it): the coverage-guided stage was skipped; stages (i)-(iii) ran")
        return
    with scratch_dir() as work:
        corpus = os.path.join(work, "corpus")
        os.makedirs(corpus)
        for i, p in enumerate(corpus_files()[:30]):
            try:
                with open(os.path.join(corpus, f"seed{i}"), "wb") as fh:
                    fh.write(open(p, "rb").read()[:4000])
            except Exception:
                pass
        procs = []
        for f in range(forks):
            crash = os.path.join(work, f"crash{f}")
            os.makedirs(crash)
            cmd = [sys.executable, target, corpus if f % 2 == 0 else os.path.join(work, f"empty{f}"), f"-max_total_time={seconds}", f"-seed={ctx.seed * 100 + f + 1}",
                   "-max_len=2000", f"-artifact_prefix={crash}/", "-timeout=20", "-rss_limit_mb=3000"]
            os.makedirs(os.path.join(work, f"empty{f}"), exist_ok=True)
            env = {**os.environ, "PYTHONPATH": f"{VERIF_HOME}:{deps}", "VERIF_FUZZ_FINDINGS": os.path.join(work, f"findings{f}.jsonl")}
            procs.append(subprocess.Popen(cmd, stdout=subprocess.DEVNULL, stderr=subprocess.PIPE, env=env, text=True))
        execs = 0
        for f, pr in enumerate(procs):
            try:
                _, err = pr.communicate(timeout=seconds + 120)
            except subprocess.TimeoutExpired:
                pr.kill()
                _, err = pr.communicate()
            import re

            m = re.findall(r"stat::number_of_executed_units: (\d+)", err or "") or re.findall(r"#(\d+)\s+DONE", err or "")
            if m:
                execs += int(m[-1])
            fpath = os.path.join(work, f"findings{f}.jsonl")
            if os.path.exists(fpath):
                for ln in open(fpath, encoding="utf-8"):
                    rec = json.loads(ln)
                    for sig, det in check_text(rec["text"], st, None)[0]:
                        st.fail(sig, {"kind": "text", "text": rec["text"]}, "[atheris] " + det)
        st.evaluations += execs
        st.labels["atheris_executions"] += execs
        st.notes.append(f"atheris: {forks} processes x {seconds}s, {execs} executions (half from an empty corpus, half from packaged files)")


# ---------------------------------------------------------------------------------------------- module interface
def shard_all(ctx: Ctx, sh: int, nshards: int) -> Stats:
    st = Stats()
    with scratch_dir() as scratch:
        _SCRATCH[0] = scratch
        st.merge(shard_tokens(ctx, sh, nshards, ctx.pick(3, 4), ctx.pick(60000, 1_000_000)))
        st.merge(shard_text(ctx, sh, nshards, ctx.pick(400, 8000)))
        st.merge(shard_mut(ctx, sh, nshards, ctx.pick(40, 800)))
        st.merge(shard_histories(ctx, sh, nshards, ctx.pick(80, 1500)))
        if sh == 0:
            fuzz_corpus(st)
        if sh == 1 % nshards:
            probes(st)
        if sh == 2 % nshards:
            tool_probes(st)
        st.merge(shard_holes(ctx, sh, nshards))
    return st


def check_case(case) -> list[Failure]:
    k = case.get("kind")
    if k == "scaling":
        st = Stats()
        ctx = Ctx(prop="C20", tier="quick", seed=1, workers=1)
        fams = sorted(families())
        idx = fams.index(case["family"])
        st = shard_scaling(ctx, idx, len(fams), case.get("n", 500))
        return [f for fl in st.failures.values() for f in fl]
    if k == "tool_probe":
        st = Stats()
        with scratch_dir() as scratch:
            _SCRATCH[0] = scratch
            tool_probes(st)
        return [f for fl in st.failures.values() for f in fl if f.case == case]
    if k == "probe":
        st = Stats()
        probes(st)
        return [f for fl in st.failures.values() for f in fl if f.case == case]
    if k == "hole":
        st = Stats()
        combos = [(tn, v) for tn in sorted(HOLE_TEMPLATES) for v in (HOLE_YAML if tn.startswith("frontmatter") else HOLE_VALUES)]
        idx = combos.index((case["template"], case["value"]))
        st = shard_holes(None, idx, len(combos))
        return [f for fl in st.failures.values() for f in fl]
    if k == "history":
        with scratch_dir() as root:
            p = os.path.join(root, "h.oct.md")
            for i, text in enumerate(case["texts"]):
                mode = (case.get("modes") or [0] * 9)[i]
                try:
                    if mode == 2 and os.path.exists(p):
                        tools.write(target_path=p, changes={"ADDED": 1, "META.M": None})
                    elif mode == 3 and os.path.exists(p):
                        tools.write(target_path=p)
                    else:
                        tools.write(target_path=p, content=text, lenient=(mode == 1), schema="META")
                except BaseException as e:  # noqa: BLE001
                    return [Failure(f"C20:unlisted:octave_write:raised-in-history:{bucket(e)}", case, repr(e))]
        return []
    text = "".join(SYMS[i] for i in case["syms"]) if k == "tokens" else case["text"]
    if k == "tokens" and case.get("ctx") is not None:
        text = TOKEN_CONTEXTS[case["ctx"]].replace("@@", text)
    with scratch_dir() as scratch:
        _SCRATCH[0] = scratch
        fails, _ = check_text(text, None, None)
        out = list(fails)
        for _ in range(8):
            out.extend(tool_calls(text, 0))
    seen = {}
    for s, d in out:
        seen.setdefault(s, d)
    return [Failure(s, case, d) for s, d in seen.items()]


def shrink_candidates(case):
    k = case.get("kind")
    if k == "tokens":
        s = case["syms"]
        for i in range(len(s)):
            yield {**case, "syms": s[:i] + s[i + 1:]}
    elif k == "text":
        t = case["text"]
        n = len(t)
        step = max(1, n // 2)
        while step >= 1:
            for i in range(0, n, step):
                yield {**case, "text": t[:i] + t[i + step:]}
            if step == 1:
                break
            step //= 2


def run(ctx: Ctx) -> Stats:
    st = run_sharded(shard_all, ctx)
    st.exhaustive = True
    st.notes.append(f"token sequences of <= {ctx.pick(3, 4)} symbols over the {len(SYMS)}-symbol alphabet enumerated completely (the exhaustive flag refers to this part)"
                    + ctx.pick("", "; and every sequence of exactly 5 symbols over the 30-symbol sub-alphabet"))
    st.merge(run_sharded(shard_scaling, ctx, nshards=min(ctx.workers, 8), extra=(ctx.pick(500, 1500),)))
    if not ctx.quick:
        fuzz_campaign(ctx, st, seconds=360, forks=8)
    return st
