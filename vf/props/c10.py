"""C10 — validation status is always present and never overstated (I5).

Generator: Hypothesis records over the argument space of octave_validate, octave_write, octave_eject,
octave_compile_grammar and the CLI validate/write commands: content kinds (valid for the schema, invalid in several ways,
unparseable, untokenisable, empty, prose), schema arguments (packaged names, names planted on the search path, an
unparseable planted schema, a field-less planted schema, unknown / lower-case / path-like / newline-suffixed names,
`latest`, frozen@sha256 references that are right / wrong-content / short / path-like / upper-case, with HOME pointing at a
generated cache), profiles (good, wrong case, unknown) and every boolean flag.
Oracle: envelope invariants checked against the harness's own knowledge of which schemas exist.
"""

from __future__ import annotations

import hashlib
import json
import os
import re

from vf import tools
from vf.common import Ctx, Failure, Stats, drive, run_sharded, scratch_dir

PROP = "C10"
LEVEL = "exploration"
RULE = (
    "Hypothesis records: tool in {validate, write, eject, compile_grammar, cli validate, cli write} x content kind (16) x schema "
    "argument (22: packaged META/SKILL/DEBATE_TRANSCRIPT/TEST_HOLOGRAPHIC, planted GEN_A/GEN_W, planted unparseable BROKEN and "
    "field-less EMPTY_S, unknown, lower-case, path-like, newline-suffixed, empty, latest with/without cache, 6 frozen@sha256 "
    "variants) x profile (7) x schema-file history (none / deleted / broken / made stricter after a successful use in the same process) x flags (fix, debug_grammar, grammar_hint, diff_only, compact, lenient, corrections_only, "
    "parse_error_policy, mode, format). Oracle: status in {VALIDATED, UNVALIDATED, INVALID} present in every envelope; VALIDATED "
    "only for schema arguments the harness knows to exist and load, and the returned canonical text is VALIDATED again under the "
    "same schema/profile; unknown/malformed/unloadable schema or parse failure => UNVALIDATED; INVALID => STRICT/STANDARD, >=1 "
    "validation error, schema name and version; valid == (status == VALIDATED). Non-trivial = >=2 non-default flags and a "
    "schema argument that is not a plain packaged name; distinct by record."
)
ASSUMPTIONS = [
    "the harness's list of existing schemas (packaged file stems, the builtin META dict, the files it planted) is the independent 'schema was found' oracle",
    "octave_write has no profile argument and is treated as STANDARD for the INVALID rule",
    "understatement (INVALID/UNVALIDATED where VALIDATED would be justified) is allowed by the property and only counted",
]
STATUSES = {"VALIDATED", "UNVALIDATED", "INVALID"}

GEN_A = ('===GEN_A===\nMETA:\n  TYPE::SCHEMA\n  VERSION::"1.0.0"\n---\nPOLICY:\n  VERSION::"1.0"\n  UNKNOWN_FIELDS::REJECT\n---\nFIELDS:\n'
         '  NAME::["ex"∧REQ]\n  STATUS::["ACTIVE"∧OPT∧ENUM[DRAFT,ACTIVE,DEPRECATED]]\n  COUNT::[5∧OPT∧TYPE[NUMBER]]\n===END===\n')
GEN_W = GEN_A.replace("GEN_A", "GEN_W").replace("REJECT", "WARN")
FROZEN_S = GEN_A.replace("GEN_A", "FROZEN_S")
BROKEN = "===BROKEN===\nFIELDS:\n  NAME::[\"ex\"∧REQ\n  (((\n"
EMPTY_S = '===EMPTY_S===\nMETA:\n  TYPE::SCHEMA\n  VERSION::"1.0.0"\n===END===\n'
FM_ONLY = ('===FM_ONLY===\nMETA:\n  TYPE::SCHEMA\n  VERSION::"1.0.0"\n  STATUS::ACTIVE\n---\nFRONTMATTER:\n  name:\n    REQUIRED::true\n    TYPE::STRING\n'
           '  allowed-tools:\n    REQUIRED::true\n    TYPE::LIST\n===END===\n')  # frontmatter requirements and no FIELDS block
KNOWN_OK = {"META", "SKILL", "DEBATE_TRANSCRIPT", "TEST_HOLOGRAPHIC", "GEN_A", "GEN_W", "FM_ONLY"}
FM_KINDS = {"fm_ok": "---\nname: x\ndescription: y\nallowed-tools: [a]\n---\n\n", "fm_missing_one": "---\nname: x\ndescription: y\n---\n\n", "fm_blank": "---\n\n---\n\n",
            "fm_comment_only": "---\n# nothing here\n---\n\n", "fm_scalar": "---\njust a title\n---\n\n", "fm_list": "---\n- a\n- b\n---\n\n",
            "fm_wrong_type": "---\nname: [x]\ndescription: y\nallowed-tools: a\n---\n\n", "fm_bad_yaml": "---\nname: [x\n: :\n---\n\n"}


def sha(text: str) -> str:
    return hashlib.sha256(text.encode("utf-8")).hexdigest()


D_GOOD = sha(FROZEN_S)
D_OTHER = sha("something else")
SCHEMAS = ["META", "SKILL", "SKILL", "FM_ONLY", "DEBATE_TRANSCRIPT", "TEST_HOLOGRAPHIC", "GEN_A", "GEN_W", "BROKEN", "EMPTY_S", "NOPE", "meta", "Meta", "../meta",
           "specs/schemas/gen_a", "META\n", "", "GEN_A.oct.md", "latest", "frozen@sha256:" + D_GOOD, "frozen@sha256:" + D_GOOD.upper(),
           "frozen@sha256:" + D_OTHER, "frozen@sha256:" + D_GOOD[:16], "frozen@sha256:../../" + D_GOOD[:58], "frozen@md5:" + D_GOOD[:32]]
PROFILES = [None, "STRICT", "STANDARD", "LENIENT", "ULTRA", "strict", "FOO", ""]
CONTENT_KINDS = ["valid", "instance_quoted_number", "instance_type_violation", "valid_lenient_spelling", "missing_version", "bad_status", "case_status", "unknown_meta_field", "no_meta",
                 "instance_missing_req", "instance_unknown", "instance_bad_enum", "unparseable", "untokenisable", "empty", "prose"] + sorted(FM_KINDS)


def content_for(kind: str, schema: str) -> str:
    inst = schema if schema in ("GEN_A", "GEN_W", "FROZEN_S") else ("FROZEN_S" if schema.startswith("frozen@") or schema == "latest" else "GEN_A")
    head = '===DOC===\nMETA:\n  TYPE::SKILL\n  VERSION::"1.0"\n  STATUS::ACTIVE\n'
    body = f"{inst}:\n  NAME::widget\n  STATUS::ACTIVE\n  COUNT::5\n"
    tail = "===END===\n"
    if kind in FM_KINDS:
        return FM_KINDS[kind] + head + body + tail
    if kind == "valid":
        return head + body + tail
    if kind == "valid_lenient_spelling":
        return '===DOC===\nMETA:\n    TYPE :: SKILL\n    VERSION::"1.0"\n\n    STATUS::"ACTIVE"  \n' + f"{inst}:\n   NAME::  widget\n   STATUS::ACTIVE\n   FLOW::[a -> b]\n".replace("   FLOW::[a -> b]\n", "") + "\n"
    if kind == "missing_version":
        return "===DOC===\nMETA:\n  TYPE::SKILL\n" + body + tail
    if kind == "bad_status":
        return head.replace("ACTIVE", "BOGUS") + body + tail
    if kind == "case_status":
        return head.replace("ACTIVE", "active") + body.replace("STATUS::ACTIVE", "STATUS::active") + tail
    if kind == "unknown_meta_field":
        return head + "  EXTRA::1\n" + body + tail
    if kind == "no_meta":
        return "===DOC===\n" + body + tail
    if kind == "instance_missing_req":
        return head + f"{inst}:\n  STATUS::DRAFT\n" + tail
    if kind == "instance_unknown":
        return head + body + "  SURPRISE::1\n" + tail
    if kind == "instance_quoted_number":  # repairable under fix/lenient, a TYPE violation otherwise
        return head + body.replace("COUNT::5", 'COUNT::"5"') + tail
    if kind == "instance_type_violation":  # the ONLY violation is one of TYPE
        return head + body.replace("COUNT::5", "COUNT::five") + tail
    if kind == "instance_bad_enum":
        return head + body.replace("STATUS::ACTIVE", "STATUS::NOPE").replace("COUNT::5", 'COUNT::"five"') + tail
    if kind == "unparseable":
        return "===DOC===\nK::[1,2\nL::3\n===END===\n"
    if kind == "untokenisable":
        return "===DOC===\nK::\tx (y)\n===END===\n"
    if kind == "empty":
        return ""
    return "Just some prose, nothing structured here.\nSecond line."


def plant(root: str, latest: bool):
    sdir = os.path.join(root, "specs", "schemas")
    os.makedirs(sdir, exist_ok=True)
    for name, text in (("gen_a", GEN_A), ("gen_w", GEN_W), ("broken", BROKEN), ("empty_s", EMPTY_S), ("fm_only", FM_ONLY)):
        with open(os.path.join(sdir, name + ".oct.md"), "w", encoding="utf-8") as fh:
            fh.write(text)
    cache = os.path.join(root, "home", ".octave", "standards")
    os.makedirs(cache, exist_ok=True)
    with open(os.path.join(cache, D_GOOD[:16] + ".oct.md"), "w", encoding="utf-8") as fh:
        fh.write(FROZEN_S)
    with open(os.path.join(cache, D_OTHER[:16] + ".oct.md"), "w", encoding="utf-8") as fh:
        fh.write(FROZEN_S)  # wrong content for that digest
    dflt = os.path.join(cache, "default.oct.md")
    if latest:
        with open(dflt, "w", encoding="utf-8") as fh:
            fh.write(FROZEN_S)
    elif os.path.exists(dflt):
        os.unlink(dflt)


def schema_may_validate(tool: str, schema, latest_planted: bool) -> bool:
    """Independent knowledge: does this schema argument name a schema that exists and loads (for this tool)?"""
    if not isinstance(schema, str):
        return False
    if schema in KNOWN_OK:
        return True
    if tool in ("write",):
        if schema == "latest":
            return latest_planted
        if schema.lower() == "frozen@sha256:" + D_GOOD and schema.startswith("frozen@sha256:"):
            return True
    return False


_LAST = {"status": None}


def has_blocking_error(case) -> bool:
    """Harness knowledge of the planted schemas: does this content violate the schema in a blocking way?"""
    sch, kind = case["schema"], case["content_kind"]
    mutation = case.get("mutation") if sch in ("GEN_A", "GEN_W") else None
    if sch in ("GEN_A", "GEN_W"):
        if mutation == "stricter" and not parse_fails(kind) and kind not in ("empty", "prose"):
            return True  # EXTRA_REQ is required and no generated content carries it
        if kind in ("instance_missing_req", "instance_bad_enum", "instance_type_violation", "instance_quoted_number"):
            return True
        if kind == "instance_unknown" and sch == "GEN_A":
            return True
    if sch == "META" and kind in ("missing_version",):
        return True
    # schemas with FRONTMATTER requirements (packaged SKILL: name, description, allowed-tools; planted FM_ONLY: name,
    # allowed-tools): every parseable content except the one carrying a complete, well-typed frontmatter violates them
    if sch in ("SKILL", "FM_ONLY") and not parse_fails(kind):
        return kind != "fm_ok"
    return False


def parse_fails(kind: str) -> bool:
    return kind in ("unparseable", "untokenisable")


CLI_VALID_META = '===D===\nMETA:\n  TYPE::T\n  VERSION::"1.0.0"\n  STATUS::ACTIVE\nK::v\n===END===\n'
CLI_DELTAS = [{"META.TYPE": {"$op": "DELETE"}}, {"META.VERSION": 5}, {"META.STATUS": "BOGUS"}, {"META.VERSION": {"$op": "DELETE"}}, {"K": "x"},
              {"META": {"STATUS": "nope"}}, {"META.TYPE": None}, {"META.STATUS": {"$op": "DELETE"}, "K": [1, 2]}, {"NEW": "y"}]


def check_envelope(view, r, case, fails, latest):
    if not isinstance(r, dict):
        fails.append(("C10:unlisted:not-a-dict", f"{view}: response is {type(r).__name__}"))
        return
    st = r.get("validation_status")
    if st not in STATUSES:
        fails.append((f"C10:unlisted:{view}:status-missing-or-unknown", f"{view}: validation_status={st!r} in envelope with keys {sorted(r)[:20]} | case={case}"))
        return
    ok_schema = schema_may_validate(view.split(":")[0], case.get("schema"), latest)
    if case.get("mutation") in ("delete", "break") and case.get("schema") in ("GEN_A", "GEN_W"):
        ok_schema = False
    prof_u = (case.get("profile") or "STANDARD").upper() if view.startswith("validate") else "STANDARD"
    if st == "VALIDATED" and ok_schema and has_blocking_error(case) and prof_u in ("STRICT", "STANDARD") \
            and not (view.startswith("validate") and case.get("fix")) and not (view.startswith("write") and case.get("lenient")):
        fails.append((f"C10:unlisted:{view}:validated-despite-blocking-error",
                      f"{view}: VALIDATED although the content violates the (current) schema in a blocking way | case={case}"))
    if st == "VALIDATED" and not ok_schema:
        fails.append((f"C10:unlisted:{view}:validated-without-schema", f"{view}: VALIDATED although schema argument {case.get('schema')!r} names no loadable schema | case={case}"))
    if st != "UNVALIDATED" and not ok_schema:
        fails.append((f"C10:unlisted:{view}:not-unvalidated-for-unknown-schema", f"{view}: {st} for schema argument {case.get('schema')!r} | case={case}"))
    if st != "UNVALIDATED" and parse_fails(case["content_kind"]) and not (view.startswith("write") and case.get("parse_error_policy") == "salvage" and case.get("lenient")):
        fails.append((f"C10:unlisted:{view}:not-unvalidated-on-parse-failure", f"{view}: {st} although the content does not parse | case={case}"))
    if st == "INVALID":
        prof = (case.get("profile") or "STANDARD")
        if view.startswith("validate") and prof.upper() not in ("STRICT", "STANDARD"):
            fails.append((f"C10:unlisted:{view}:invalid-under-lenient-profile", f"{view}: INVALID under profile {prof!r} | case={case}"))
        if not r.get("validation_errors") and not r.get("validation_error_count"):
            fails.append((f"C10:unlisted:{view}:invalid-without-errors", f"{view}: INVALID with no validation error | envelope keys={sorted(r)} | case={case}"))
        if not r.get("schema_name") or not r.get("schema_version"):
            fails.append((f"C10:unlisted:{view}:invalid-without-schema-name", f"{view}: INVALID without schema_name/schema_version | case={case}"))
    if "valid" in r and r["valid"] != (st == "VALIDATED"):
        fails.append((f"C10:unlisted:{view}:valid-flag-disagrees", f"{view}: valid={r['valid']!r} with validation_status={st} | case={case}"))


def run_case(case, root: str):
    latest = bool(case.get("latest_planted"))
    plant(root, latest)
    fails: list = []
    content = content_for(case["content_kind"], case["schema"]) if case["content_kind"] != "none" else None
    tool = case["tool"]
    old_cwd, old_home = os.getcwd(), os.environ.get("HOME")
    os.chdir(root)
    os.environ["HOME"] = os.path.join(root, "home")
    understated = False
    try:
        mutation = case.get("mutation") if case["schema"] in ("GEN_A", "GEN_W") else None
        if mutation:
            # a history inside one process: the schema is used successfully, then its file changes on disk
            tools.validate(content=content_for("valid", case["schema"]), schema=case["schema"])
            tools.write(target_path=os.path.join(root, "warm.oct.md"), content=content_for("valid", case["schema"]), schema=case["schema"], corrections_only=True)
            spath = os.path.join(root, "specs", "schemas", case["schema"].lower() + ".oct.md")
            if mutation == "delete":
                os.unlink(spath)
            elif mutation == "break":
                with open(spath, "w", encoding="utf-8") as fh:
                    fh.write(BROKEN)
            else:
                with open(spath, "w", encoding="utf-8") as fh:
                    fh.write((GEN_A if case["schema"] == "GEN_A" else GEN_W).replace("FIELDS:\n", 'FIELDS:\n  EXTRA_REQ::["x"∧REQ]\n'))
        if tool == "validate":
            kw = {"content": content, "schema": case["schema"]}
            for k in ("fix", "debug_grammar", "grammar_hint", "diff_only", "compact"):
                if case.get(k):
                    kw[k] = True
            if case.get("profile") is not None:
                kw["profile"] = case["profile"]
            if case.get("via_file"):
                p = os.path.join(root, "in.oct.md")
                with open(p, "w", encoding="utf-8") as fh:
                    fh.write(content)
                kw.pop("content")
                kw["file_path"] = p
            r = tools.validate(**kw)
            check_envelope("validate", r, case, fails, latest)
            if isinstance(r, dict) and r.get("validation_status") == "VALIDATED" and isinstance(r.get("canonical"), str):
                kw2 = {"content": r["canonical"], "schema": case["schema"]}
                if case.get("profile") is not None:
                    kw2["profile"] = case["profile"]
                r2 = tools.validate(**kw2)
                if r2.get("validation_status") != "VALIDATED":
                    fails.append(("C10:unlisted:validate:validated-text-not-validated-again",
                                  f"canonical text returned as VALIDATED is {r2.get('validation_status')} when validated again: "
                                  f"{r2.get('validation_errors')} | canonical={r['canonical']!r} | case={case}"))
        elif tool == "write":
            p = os.path.join(root, "out.oct.md")
            if os.path.exists(p):
                os.unlink(p)
            kw = {"target_path": p, "content": content, "schema": case["schema"]}
            for k in ("lenient", "corrections_only", "debug_grammar", "grammar_hint"):
                if case.get(k):
                    kw[k] = True
            if case.get("parse_error_policy"):
                kw["parse_error_policy"] = case["parse_error_policy"]
            r = tools.write(**kw)
            check_envelope("write", r, case, fails, latest)
            if isinstance(r, dict) and r.get("validation_status") == "VALIDATED" and r.get("status") == "success" and os.path.exists(p):
                text = open(p, encoding="utf-8").read()
                r2 = tools.write(target_path=os.path.join(root, "again.oct.md"), content=text, schema=case["schema"], corrections_only=True)
                if r2.get("validation_status") != "VALIDATED":
                    fails.append(("C10:unlisted:write:validated-text-not-validated-again",
                                  f"file written as VALIDATED is {r2.get('validation_status')} when checked again: {r2.get('validation_errors')} | file={text!r} | case={case}"))
        elif tool == "eject":
            kw = {"content": content, "schema": case["schema"], "mode": case.get("mode", "canonical"), "format": case.get("format", "octave")}
            r = tools.eject(**kw)
            check_envelope("eject", r, case, fails, latest)
        elif tool == "compile":
            kw = {"schema": case["schema"], "format": case.get("gformat", "gbnf")}
            if case.get("with_content"):
                kw["content"] = content
            r = tools.compile_grammar(**kw)
            check_envelope("compile", r, case, fails, latest)
        elif tool in ("cli_validate", "cli_write"):
            if tool == "cli_validate":
                args = ["validate", "--stdin"] + (["--schema", case["schema"]] if case["schema"] else []) + (["--fix"] if case.get("fix") else [])
            else:
                p = os.path.join(root, "cli.oct.md")
                args = ["write", p, "--stdin"] + (["--schema", case["schema"]] if case["schema"] else [])
            code, out, err, exc = tools.cli(args, input=content or "")
            if exc is not None:
                fails.append((f"C10:unlisted:{tool}:raised", f"{tool} raised {exc!r} | case={case}"))
            m = re.findall(r"^validation_status: (\S+)$", out, re.M)
            if tool == "cli_write" and code == 0 and "VALIDATED" in m and os.path.exists(p):
                # what `octave write` stored as VALIDATED is VALIDATED when checked again
                r2 = tools.validate(file_path=p, schema=case["schema"])
                if r2.get("validation_status") != "VALIDATED":
                    fails.append(("C10:unlisted:cli_write:validated-text-not-validated-again", f"file written as VALIDATED is {r2.get('validation_status')} when checked again: {r2.get('validation_errors')} | case={case}"))
            if tool == "cli_write" and case["schema"] == "META":
                # a delta on a file that is valid under META: the status printed by `octave write --changes --schema` describes the
                # file as written (the delta may remove a required field or set a value outside the schema)
                with open(p, "w", encoding="utf-8") as fh:
                    fh.write(CLI_VALID_META)
                delta = CLI_DELTAS[case.get("delta", 0) % len(CLI_DELTAS)]
                code2, out2, err2, exc2 = tools.cli(["write", p, "--changes", json.dumps(delta), "--schema", "META"])
                m2 = re.findall(r"^validation_status: (\S+)$", out2, re.M)
                if exc2 is not None:
                    fails.append(("C10:unlisted:cli_write_changes:raised", f"cli write --changes raised {exc2!r} | delta={delta}"))
                elif code2 == 0 and "VALIDATED" in m2:
                    r2 = tools.validate(file_path=p, schema="META")
                    if r2.get("validation_status") != "VALIDATED":
                        fails.append(("C10:unlisted:cli_write_changes:validated-text-not-validated-again",
                                      f"`octave write --changes {json.dumps(delta)} --schema META` prints VALIDATED and exits 0; the file it wrote is {r2.get('validation_status')}: {r2.get('validation_errors')}"))
            if code == 0 and not m:
                fails.append((f"C10:unlisted:{tool}:status-missing", f"{tool} exit 0 without a validation_status line: {out[-300:]!r} | case={case}"))
            for s in m:
                if s not in STATUSES:
                    fails.append((f"C10:unlisted:{tool}:status-unknown", f"{tool}: {s!r}"))
                if s == "VALIDATED" and case["schema"] != "META":
                    fails.append((f"C10:unlisted:{tool}:validated-without-schema", f"{tool}: VALIDATED for schema {case['schema']!r} (the CLI knows only the builtin META) | case={case}"))
                if s == "VALIDATED" and code != 0 and tool == "cli_validate":
                    fails.append((f"C10:unlisted:{tool}:validated-with-failure-exit", f"{tool}: VALIDATED but exit {code}"))
            r = None
        if isinstance(r, dict) and r.get("validation_status") != "VALIDATED" and case["content_kind"] in ("valid",) \
                and schema_may_validate(tool, case["schema"], latest):
            understated = True
    finally:
        os.chdir(old_cwd)
        if old_home is None:
            os.environ.pop("HOME", None)
        else:
            os.environ["HOME"] = old_home
    _LAST["status"] = r.get("validation_status") if isinstance(r, dict) else None
    return fails, understated


def strategy():
    from hypothesis import strategies as hs

    b = hs.booleans()
    return hs.fixed_dictionaries({
        "delta": hs.integers(0, 8),
        "tool": hs.sampled_from(["validate", "validate", "validate", "write", "write", "write", "eject", "compile", "cli_validate", "cli_write"]),
        "content_kind": hs.sampled_from(CONTENT_KINDS + ["unknown_meta_field", "missing_version", "bad_status", "case_status", "valid"] * 2),
        "schema": hs.one_of(hs.sampled_from(sorted(KNOWN_OK)), hs.sampled_from(["META", "GEN_A", "GEN_W"]), hs.sampled_from(SCHEMAS)),
        "profile": hs.sampled_from(PROFILES + ["STRICT", "STANDARD"]),
        "fix": b, "debug_grammar": b, "grammar_hint": b, "diff_only": b, "compact": b, "lenient": b, "corrections_only": b, "via_file": b,
        "parse_error_policy": hs.sampled_from([None, None, "error", "salvage"]), "latest_planted": b, "with_content": b,
        "mutation": hs.sampled_from([None, None, None, "delete", "break", "stricter"]),
        "mode": hs.sampled_from(["canonical", "authoring", "executive", "developer"]),
        "format": hs.sampled_from(["octave", "json", "yaml", "markdown", "gbnf"]), "gformat": hs.sampled_from(["gbnf", "json_schema", "regex", "bogus"]),
    })


FLAGS = ("fix", "debug_grammar", "grammar_hint", "diff_only", "compact", "lenient", "corrections_only", "via_file", "with_content")


def shard(ctx: Ctx, sh: int, nshards: int, n: int) -> Stats:
    st = Stats()
    with scratch_dir() as root:
        def one(case):
            try:
                fails, under = run_case(case, root)
            except Exception as e:  # a tool that raises is itself a (C20) failure; here it also means no envelope
                import traceback

                fails, under = [(f"C10:unlisted:{case['tool']}:raised", f"{case['tool']} raised {e!r} | {traceback.format_exc()[-500:]} | case={case}")], False
            nflags = sum(1 for k in FLAGS if case.get(k)) + (1 if case.get("profile") else 0) + (1 if case.get("parse_error_policy") else 0)
            nt = nflags >= 2 and case["schema"] not in ("META", "SKILL", "DEBATE_TRANSCRIPT", "TEST_HOLOGRAPHIC")
            st.case(case, nontrivial=nt, labels=["tool_" + case["tool"], "content_" + case["content_kind"], f"status_{case['tool']}_{_LAST['status']}"]
                    + (["understated"] if under else []))
            for sig, det in fails:
                st.fail(sig, case, det[:1800])

        drive(strategy(), one, ctx.shard_seed(sh, 31), n, chunk=4000)
    return st


def check_case(case) -> list[Failure]:
    with scratch_dir() as root:
        try:
            fails, _ = run_case(case, root)
        except Exception as e:
            fails = [(f"C10:unlisted:{case['tool']}:raised", f"{case['tool']} raised {e!r}")]
    return [Failure(s, case, d[:1800]) for s, d in fails]


def shrink_candidates(case):
    for k in FLAGS + ("latest_planted",):
        if case.get(k):
            yield {**case, k: False}
    if case.get("profile"):
        yield {**case, "profile": None}
    if case.get("parse_error_policy"):
        yield {**case, "parse_error_policy": None}
    if case.get("mutation"):
        yield {**case, "mutation": None}
    if case["content_kind"] != "valid":
        yield {**case, "content_kind": "valid"}


def run(ctx: Ctx) -> Stats:
    return run_sharded(shard, ctx, extra=(ctx.pick(3000, 30000),))
