"""File-operation interposition for C16, C17 and C19 (DESIGN.md section 2.4).

`install(root, hook)` patches, inside the current process, every file-system entry point the write paths use —
os.{stat,lstat,open,close,mkdir,rmdir,unlink,remove,rename,replace,link,symlink,truncate,ftruncate,chmod,fchmod,fsync,
fdatasync,fdopen,readlink,scandir,listdir,utime,access}, builtins.open / io.open — and wraps the file objects they return
(read/write/flush/close/truncate). pathlib and tempfile resolve os.* at call time, so they are covered. Every operation
that touches a path under one of the watched roots (or a descriptor / file object opened there) is a *boundary*:

    hook(index, name, info) is called BEFORE the operation is performed and may
      * return None                -> the operation proceeds,
      * raise OSError(errno, ...)  -> injected fault (the operation is not performed),
      * call os._exit(...)         -> kill point (no finally blocks, no buffer flush: what SIGKILL would leave),
      * return ("torn", n)         -> for `write` boundaries: only the first n characters reach the file (flushed), then
                                      the process is killed,
      * block / call back          -> scheduler yield point or in-call external modification.

The trace (list of (name, relative path or 'fd:<path>')) is available as `STATE.trace`.
Meant to be used in a forked child: nothing is ever un-patched.
"""

from __future__ import annotations

import builtins
import io
import os
import threading

_OS_PATH_FUNCS = ["stat", "lstat", "open", "mkdir", "rmdir", "unlink", "remove", "rename", "replace", "link", "symlink", "truncate", "chmod",
                  "readlink", "scandir", "listdir", "utime", "access", "chown", "makedirs"]
_OS_FD_FUNCS = ["close", "ftruncate", "fchmod", "fsync", "fdatasync", "fstat", "write", "read"]
MUTATING = {"open:w", "mkdir", "rmdir", "unlink", "remove", "rename", "replace", "link", "symlink", "truncate", "ftruncate", "chmod", "fchmod",
            "write", "utime", "chown", "makedirs"}


class State:
    def __init__(self):
        self.roots: list[str] = []
        self.hook = None
        self.trace: list = []
        self.fds: dict[int, str] = {}
        self.real: dict = {}
        self.installed = False
        self.busy = False  # re-entrancy guard (the hook itself may touch files)


STATE = State()


def _under(p) -> str | None:
    try:
        if isinstance(p, int):
            return None
        s = os.fspath(p)
        if isinstance(s, bytes):
            s = s.decode("utf-8", "surrogateescape")
        if not os.path.isabs(s):
            s = os.path.join(STATE.real_getcwd(), s)
        s = os.path.normpath(s) if False else s
        for r in STATE.roots:
            if s == r or s.startswith(r + os.sep):
                return s
    except Exception:
        return None
    return None


def rel(p: str) -> str:
    if len(STATE.roots) > 1:
        return p  # several watched roots: keep absolute paths (a single $R would be ambiguous)
    for r in STATE.roots:
        if p == r:
            return "$R"
        if p.startswith(r + os.sep):
            return "$R/" + p[len(r) + 1:]
    return p


_TL = threading.local()  # the re-entrancy guard is per thread: one writer parked inside the hook must not switch the hook off for the other


def boundary(name: str, info: str):
    """Record a boundary and consult the hook. Returns the hook's return value."""
    if getattr(_TL, "busy", False) or STATE.hook is None:
        STATE.trace.append((name, info))
        return None
    idx = len(STATE.trace)
    STATE.trace.append((name, info))
    _TL.busy = True
    try:
        return STATE.hook(idx, name, info)
    finally:
        _TL.busy = False


class FileProxy:
    """Wraps a file object opened under a watched root."""

    def __init__(self, f, path: str):
        object.__setattr__(self, "_f", f)
        object.__setattr__(self, "_p", path)

    def write(self, data):
        r = boundary("write", "fd:" + rel(self._p))
        if isinstance(r, tuple) and r and r[0] == "torn":
            n = max(0, min(len(data), int(r[1])))
            self._f.write(data[:n])
            self._f.flush()
            os._exit(137)
        return self._f.write(data)

    def flush(self):
        boundary("flush", "fd:" + rel(self._p))
        return self._f.flush()

    def read(self, *a):
        boundary("read", "fd:" + rel(self._p))
        return self._f.read(*a)

    def truncate(self, *a):
        boundary("ftruncate", "fd:" + rel(self._p))
        return self._f.truncate(*a)

    def close(self):
        if not self._f.closed:
            boundary("fclose", "fd:" + rel(self._p))
            try:
                STATE.fds.pop(self._f.fileno(), None)
            except Exception:
                pass
        return self._f.close()

    def __enter__(self):
        self._f.__enter__()
        return self

    def __exit__(self, *a):
        self.close()
        return False

    def __iter__(self):
        return iter(self._f)

    def __getattr__(self, n):
        return getattr(self._f, n)

    def __setattr__(self, n, v):
        setattr(self._f, n, v)


def install(roots, hook=None):
    """Patch the process. `roots` are absolute directory paths; `hook(index, name, info)` as described above."""
    if STATE.installed:
        STATE.roots = [os.path.realpath(r) for r in roots]
        STATE.hook = hook
        STATE.trace = []
        return STATE
    STATE.real_getcwd = os.getcwd
    STATE.roots = [os.path.realpath(r) for r in roots]
    STATE.hook = hook
    STATE.trace = []
    real = STATE.real

    def wrap_path(name):
        f = getattr(os, name)
        real[name] = f

        def w(*a, **k):
            p = _under(a[0]) if a else None
            p2 = _under(a[1]) if (len(a) > 1 and name in ("rename", "replace", "link", "symlink")) else None
            if p is None and p2 is None:
                return f(*a, **k)  # (paths given relative to a dir_fd are not watched)
            label = name
            if name == "open":
                flags = a[1] if len(a) > 1 else k.get("flags", 0)
                label = "open:w" if flags & (os.O_WRONLY | os.O_RDWR | os.O_CREAT | os.O_TRUNC | os.O_APPEND) else "open:r"
            info = rel(p) if p else rel(p2)
            if p and p2:
                info = rel(p) + " -> " + rel(p2)
            boundary(label, info)
            r = f(*a, **k)
            if name == "open" and isinstance(r, int) and p:
                STATE.fds[r] = p
            return r

        w.__name__ = name
        return w

    def wrap_fd(name):
        f = getattr(os, name)
        real[name] = f

        def w(*a, **k):
            fd = a[0] if a else None
            if isinstance(fd, int) and fd in STATE.fds:
                r = boundary(name, "fd:" + rel(STATE.fds[fd]))
                if name == "close":
                    STATE.fds.pop(fd, None)
                if name == "write" and isinstance(r, tuple) and r and r[0] in ("short", "torn") and len(a) > 1:
                    n = max(1, min(len(a[1]), int(r[1])))
                    done = f(fd, a[1][:n])  # a legal short write: fewer bytes than asked for, reported truthfully
                    if r[0] == "torn":
                        os._exit(137)
                    return done
            return f(*a, **k)

        w.__name__ = name
        return w

    for n in _OS_PATH_FUNCS:
        if hasattr(os, n):
            setattr(os, n, wrap_path(n))
    for n in _OS_FD_FUNCS:
        if hasattr(os, n):
            setattr(os, n, wrap_fd(n))

    real_open = builtins.open
    real["builtins.open"] = real_open

    def popen(file, *a, **k):
        p = _under(file)
        if p is None and isinstance(file, int) and file in STATE.fds:
            path = STATE.fds[file]  # the descriptor stays registered (fsync/fchmod on f.fileno()) until the file object is closed
            f = real_open(file, *a, **k)
            return FileProxy(f, path)
        if p is None:
            return real_open(file, *a, **k)
        mode = a[0] if a else k.get("mode", "r")
        boundary("open:w" if any(c in mode for c in "wax+") else "open:r", rel(p))
        f = real_open(file, *a, **k)
        try:
            STATE.fds[f.fileno()] = p
        except Exception:
            pass
        return FileProxy(f, p)

    builtins.open = popen
    io.open = popen
    real_fdopen = os.fdopen
    real["fdopen"] = real_fdopen

    def fdo(fd, *a, **k):
        f = real_fdopen(fd, *a, **k)  # os.fdopen goes through io.open, which is patched: usually already a proxy
        if isinstance(fd, int) and fd in STATE.fds and not isinstance(f, FileProxy):
            return FileProxy(f, STATE.fds[fd])
        return f

    os.fdopen = fdo
    STATE.installed = True
    return STATE


def snapshot(*roots) -> list:
    """Sorted list of (relative path, type, mode bits, bytes or link target) below each root (uses the real functions)."""
    lst = STATE.real.get("lstat", os.lstat)
    out = []
    for ri, root in enumerate(roots):
        for dirpath, dirnames, filenames in os.walk(root):
            dirnames.sort()
            for name in sorted(dirnames + filenames):
                p = os.path.join(dirpath, name)
                st = lst(p)
                relp = f"{ri}:" + os.path.relpath(p, root)
                import stat as _s

                if _s.S_ISLNK(st.st_mode):
                    out.append((relp, "link", 0, os.readlink(p)))
                elif _s.S_ISDIR(st.st_mode):
                    out.append((relp, "dir", st.st_mode & 0o777, ""))
                else:
                    opener = STATE.real.get("builtins.open", builtins.open)
                    with opener(p, "rb") as fh:
                        out.append((relp, "file", st.st_mode & 0o777, fh.read().hex() if st.st_size < 4096 else _digest(fh)))
    return sorted(out)


def _digest(fh) -> str:
    import hashlib

    return "sha256:" + hashlib.sha256(fh.read()).hexdigest()
