"""Synchronous wrappers around the four MCP tools and the CLI (used by most property modules)."""

from __future__ import annotations

import asyncio
import os
from typing import Any

from vf.common import use_repo

use_repo()

_LOOP = None
_LOOP_PID = None


def _run(coro):
    """Run a coroutine on this process's event loop. A loop inherited through fork() is never reused: its default
    executor may name worker threads that only exist in the parent, and a tool that awaits asyncio.to_thread() would
    then wait forever."""
    global _LOOP, _LOOP_PID
    if _LOOP is not None and _LOOP_PID != os.getpid():
        # never close or collect the parent's loop here: closing it would epoll_ctl(DEL) the self-pipe on the epoll
        # instance this process shares with the parent, and the parent's loop would never wake up again
        _ORPHANS.append(_LOOP)
        _LOOP = None
    if _LOOP is None or _LOOP.is_closed():
        _LOOP = asyncio.new_event_loop()
        _LOOP_PID = os.getpid()
    return _LOOP.run_until_complete(coro)


_ORPHANS: list = []


def close_loop():
    """Close this process's loop (called before forking workers, so that no child inherits a live loop)."""
    global _LOOP
    if _LOOP is not None and _LOOP_PID == os.getpid() and not _LOOP.is_closed():
        _LOOP.close()
    if _LOOP is not None and _LOOP_PID == os.getpid():
        _LOOP = None


# One long-lived instance per tool for the whole process, as mcp/server.py:create_server() holds them: state that a tool
# keeps between calls (memos, counters) is then part of what every check observes.
_TOOLS: dict = {}


def _tool(name: str):
    if name not in _TOOLS:
        if name == "validate":
            from octave_mcp.mcp.validate import ValidateTool as T
        elif name == "write":
            from octave_mcp.mcp.write import WriteTool as T
        elif name == "eject":
            from octave_mcp.mcp.eject import EjectTool as T
        else:
            from octave_mcp.mcp.compile_grammar import CompileGrammarTool as T
        _TOOLS[name] = T()
    return _TOOLS[name]


def reset():
    """Drop the loop and the tool instances (after a call was interrupted in the middle)."""
    global _LOOP
    if _LOOP is not None and _LOOP_PID == os.getpid():
        _ORPHANS.append(_LOOP)
    _LOOP = None
    _TOOLS.clear()


def validate(**kw) -> dict[str, Any]:
    return _run(_tool("validate").execute(**kw))


def write(**kw) -> dict[str, Any]:
    return _run(_tool("write").execute(**kw))


def eject(**kw) -> dict[str, Any]:
    return _run(_tool("eject").execute(**kw))


def compile_grammar(**kw) -> dict[str, Any]:
    return _run(_tool("compile").execute(**kw))


def cli(args: list[str], input: str | None = None):
    """Run the click CLI in-process. Returns (exit_code, stdout, stderr-or-empty)."""
    from click.testing import CliRunner

    from octave_mcp.cli.main import cli as _cli

    try:
        runner = CliRunner(mix_stderr=False)
    except TypeError:  # click >= 8.2
        runner = CliRunner()
    res = runner.invoke(_cli, args, input=input, catch_exceptions=True)
    err = ""
    try:
        err = res.stderr
    except Exception:
        pass
    exc = res.exception if (res.exception is not None and not isinstance(res.exception, SystemExit)) else None
    return res.exit_code, res.stdout, err, exc
