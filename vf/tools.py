"""Synchronous wrappers around the four MCP tools and the CLI (used by most property modules)."""

from __future__ import annotations

import asyncio
from typing import Any

from vf.common import use_repo

use_repo()

_LOOP = None


def _run(coro):
    global _LOOP
    if _LOOP is None or _LOOP.is_closed():
        _LOOP = asyncio.new_event_loop()
    return _LOOP.run_until_complete(coro)


def validate(**kw) -> dict[str, Any]:
    from octave_mcp.mcp.validate import ValidateTool

    return _run(ValidateTool().execute(**kw))


def write(**kw) -> dict[str, Any]:
    from octave_mcp.mcp.write import WriteTool

    return _run(WriteTool().execute(**kw))


def eject(**kw) -> dict[str, Any]:
    from octave_mcp.mcp.eject import EjectTool

    return _run(EjectTool().execute(**kw))


def compile_grammar(**kw) -> dict[str, Any]:
    from octave_mcp.mcp.compile_grammar import CompileGrammarTool

    return _run(CompileGrammarTool().execute(**kw))


def cli(args: list[str], input: str | None = None):
    """Run the click CLI in-process. Returns (exit_code, stdout, stderr-or-empty)."""
    from click.testing import CliRunner

    from octave_mcp.cli.main import cli as _cli

    try:
        runner = CliRunner(mix_stderr=False)
    except TypeError:  # click >= 8.2
        runner = CliRunner()
    res = runner.invoke(_cli, args, input=input, catch_exceptions=True)
    err = ""
    try:
        err = res.stderr
    except Exception:
        pass
    exc = res.exception if (res.exception is not None and not isinstance(res.exception, SystemExit)) else None
    return res.exit_code, res.stdout, err, exc
