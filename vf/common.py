"""Shared plumbing: import root, scratch directories, mergeable statistics, sharding.

Everything a property module needs that is not specific to one property.
"""

from __future__ import annotations

import collections
import contextlib
import hashlib
import json
import multiprocessing
import os
import shutil
import sys
import tempfile
import traceback
from dataclasses import dataclass, field
from typing import Any, Callable, Iterable

VERIF_HOME = os.environ.get("VERIF_HOME") or os.path.dirname(os.path.dirname(os.path.abspath(__file__)))
REPO = os.environ.get("VERIF_REPO", "/repo")
# Harness-only override used by the sensitivity runs (a scratch copy of src/).
REPO_SRC = os.environ.get("VERIF_REPO_SRC") or os.path.join(REPO, "src")


def use_repo() -> None:
    """Put the working tree's src/ first on sys.path (always test the current tree)."""
    if sys.path[0] != REPO_SRC:
        if REPO_SRC in sys.path:
            sys.path.remove(REPO_SRC)
        sys.path.insert(0, REPO_SRC)
    os.environ.setdefault("OCTAVE_MCP_VERIF", "1")


use_repo()

SCRATCH_BASE = os.environ.get("VERIF_SCRATCH", "/var/tmp")


@contextlib.contextmanager
def scratch_dir(prefix: str = "octave-verif-"):
    os.makedirs(SCRATCH_BASE, exist_ok=True)
    d = tempfile.mkdtemp(prefix=prefix, dir=SCRATCH_BASE)
    try:
        yield d
    finally:
        shutil.rmtree(d, ignore_errors=True)


def digest(obj: Any) -> int:
    """Stable 64-bit digest of a JSON-able case (used to count distinct cases)."""
    s = json.dumps(obj, sort_keys=True, ensure_ascii=True, default=repr)
    return int.from_bytes(hashlib.sha1(s.encode()).digest()[:8], "big")


def short(obj: Any, n: int = 400) -> Any:
    """Truncate long strings inside a sample so evidence stays readable."""
    if isinstance(obj, str):
        return obj if len(obj) <= n else obj[:n] + f"...(+{len(obj) - n})"
    if isinstance(obj, (list, tuple)):
        return [short(x, n) for x in obj[:40]]
    if isinstance(obj, dict):
        return {str(k): short(v, n) for k, v in list(obj.items())[:40]}
    if isinstance(obj, (int, float, bool)) or obj is None:
        return obj
    return short(repr(obj), n)


@dataclass
class Failure:
    sig: str  # signature: narrow predicate name over (input, observed failure shape)
    case: Any  # JSON-able case that reproduces it through <module>.check_case
    detail: str  # human-readable observation

    def to_json(self) -> dict:
        return {"sig": self.sig, "case": self.case, "detail": self.detail}


@dataclass
class Stats:
    """Mergeable run statistics. One per shard; merged by the runner."""

    evaluations: int = 0
    nontrivial_exact: int = 0  # distinct-by-construction non-trivial cases (enumerations)
    nontrivial_hashes: set = field(default_factory=set)  # digests of generated non-trivial cases
    labels: collections.Counter = field(default_factory=collections.Counter)
    samples: list = field(default_factory=list)
    sig_counts: collections.Counter = field(default_factory=collections.Counter)
    failures: dict = field(default_factory=dict)  # sig -> list[Failure] (first few)
    notes: list = field(default_factory=list)
    exhaustive: bool | None = None
    harness_errors: list = field(default_factory=list)

    MAX_SAMPLES = 6
    MAX_FAIL_PER_SIG = 3

    def case(self, case: Any = None, *, nontrivial: bool = False, labels: Iterable[str] = (), key: Any = None,
             exact: bool = False, sample: Any = None, n: int = 1) -> None:
        self.evaluations += n
        for lb in labels:
            self.labels[lb] += 1
        if nontrivial:
            self.labels["nontrivial"] += 1
            if exact:
                self.nontrivial_exact += 1
            else:
                self.nontrivial_hashes.add(digest(case if key is None else key))
            if len(self.samples) < self.MAX_SAMPLES:
                self.samples.append(short(case if sample is None else sample))

    def fail(self, sig: str, case: Any, detail: str) -> None:
        self.sig_counts[sig] += 1
        lst = self.failures.setdefault(sig, [])
        if len(lst) < self.MAX_FAIL_PER_SIG:
            lst.append(Failure(sig, case, detail[:2000]))

    def merge(self, other: "Stats") -> "Stats":
        self.evaluations += other.evaluations
        self.nontrivial_exact += other.nontrivial_exact
        self.nontrivial_hashes |= other.nontrivial_hashes
        self.labels.update(other.labels)
        for s in other.samples:
            if len(self.samples) < self.MAX_SAMPLES:
                self.samples.append(s)
        self.sig_counts.update(other.sig_counts)
        for sig, lst in other.failures.items():
            mine = self.failures.setdefault(sig, [])
            for f in lst:
                if len(mine) < self.MAX_FAIL_PER_SIG:
                    mine.append(f)
        self.notes.extend(n for n in other.notes if n not in self.notes)
        if other.exhaustive is not None:
            self.exhaustive = other.exhaustive if self.exhaustive is None else (self.exhaustive and other.exhaustive)
        self.harness_errors.extend(other.harness_errors)
        return self

    @property
    def distinct_nontrivial(self) -> int:
        return self.nontrivial_exact + len(self.nontrivial_hashes)


@dataclass
class Ctx:
    prop: str
    tier: str
    seed: int
    workers: int

    @property
    def quick(self) -> bool:
        return self.tier == "quick"

    def pick(self, quick: Any, thorough: Any) -> Any:
        return quick if self.tier == "quick" else thorough

    def shard_seed(self, shard: int, salt: int = 0) -> int:
        return (self.seed * 1000003 + shard * 7919 + salt * 104729) % (2**63)


def _run_shard(args):
    fn, ctx, shard, nshards, extra = args
    try:
        use_repo()
        lim = float(os.environ.get("VERIF_WORKER_MEM_GB", "0") or 0)
        if lim > 0:  # developer aid: a worker that outgrows the limit fails with MemoryError (a traceback) instead of being OOM-killed
            import resource

            resource.setrlimit(resource.RLIMIT_AS, (int(lim * 2**30), int(lim * 2**30)))
        return fn(ctx, shard, nshards, *extra)
    except BaseException:  # harness error: reported as exit 2, never as a violation
        st = Stats()
        st.harness_errors.append(f"shard {shard}: " + traceback.format_exc())
        return st


def run_sharded(fn: Callable, ctx: Ctx, nshards: int | None = None, extra: tuple = ()) -> Stats:
    """Run fn(ctx, shard, nshards, *extra) -> Stats in forked workers and merge."""
    nshards = nshards or ctx.workers
    total = Stats()
    if nshards == 1 or ctx.workers == 1:
        for s in range(nshards):
            total.merge(_run_shard((fn, ctx, s, nshards, extra)))
        return total
    mp = multiprocessing.get_context("fork")
    if "vf.tools" in sys.modules:  # no worker inherits a live event loop (see vf/tools.py:_run)
        sys.modules["vf.tools"].close_loop()
    # ProcessPoolExecutor, not multiprocessing.Pool: when a worker dies (e.g. killed by the kernel for memory) Pool.map waits
    # for ever, the executor raises BrokenProcessPool, which the runner reports as a harness error (exit 2)
    from concurrent.futures import ProcessPoolExecutor

    with ProcessPoolExecutor(max_workers=min(ctx.workers, nshards), mp_context=mp) as pool:
        for st in pool.map(_run_shard, [(fn, ctx, s, nshards, extra) for s in range(nshards)]):
            total.merge(st)
    return total


def hyp_settings(max_examples: int, **kw):
    from hypothesis import HealthCheck, Phase, settings

    phases = kw.pop("phases", (Phase.generate,))
    return settings(
        max_examples=max_examples,
        deadline=None,
        database=None,
        derandomize=False,
        report_multiple_bugs=False,
        suppress_health_check=list(HealthCheck),
        phases=phases,
        **kw,
    )


DRIVE_CHUNK = 250


def _quiet(strategy):
    """The same strategy with a one-word repr. Whenever a top-level draw is abandoned (a filter that runs dry, a rejected
    unique list) Hypothesis attaches a note quoting repr(strategy); for the recursive document strategies that text is
    megabytes long and is rebuilt every time — gigabytes of garbage per worker in long runs."""
    from hypothesis.strategies import SearchStrategy

    class Quiet(SearchStrategy):
        def __init__(self, inner):
            super().__init__()
            self.inner = inner

        def do_draw(self, data):
            return data.draw(self.inner)

        def __repr__(self):
            return "<vf strategy>"

    return Quiet(strategy)


def drive(strategy, fn: Callable[[Any], None], seed: int, max_examples: int, chunk: int | None = None) -> None:
    """Run fn over max_examples draws of strategy, deterministically from seed.

    fn must not raise on oracle failure (collect mode); exceptions are harness errors.
    Large counts are split into runs of `chunk` (default DRIVE_CHUNK) examples with derived seeds: Hypothesis keeps a tree of
    everything it generated in one run (that is what makes every example of a run novel), about 3 MB per model document,
    which for thousands of documents grows to gigabytes per worker. Callers whose cases are small records pass a large
    chunk and keep the novelty guarantee over the whole run.
    """
    import gc

    import hypothesis
    from hypothesis import given

    strategy = _quiet(strategy)
    done = 0
    i = 0
    cnt = [0]
    while done < max_examples:
        n = min(chunk or DRIVE_CHUNK, max_examples - done)

        @hypothesis.seed((seed + 7919 * i) % (2**63))
        @hyp_settings(n)
        @given(strategy)
        def _t(case):
            fn(case)
            cnt[0] += 1
            if cnt[0] % 50 == 0:
                gc.collect()  # most of what a run holds is cyclic garbage of finished examples; the cyclic collector alone lets it pile up to GBs

        _t()
        done += n
        i += 1
        gc.collect()
