"""Line-level recogniser of the strict profile (C03), written from the property statement, not from the emitter.

strict_profile(text) -> list of (rule, line_no, detail); empty = the text is in the strict profile:
  * Unicode operators only outside strings, comments and literal zones (no -> <-> + ~ | & # vs);
  * no space around `::`;
  * exactly two spaces of indentation per level (depth from this recogniser's own container/list stack);
  * explicit ===NAME=== first (after optional frontmatter / grammar sentinel) and ===END=== last;
  * no tabs or trailing whitespace outside literal zones; a single final newline.
YAML frontmatter (raw, preserved byte-for-byte by design) and literal-zone content are opaque.
"""

from __future__ import annotations

import re

FENCE = re.compile(r"^( *)(`{3,})(.*)$")
# a '+' directly after <digit>e is the exponent sign of a number, not the synthesis alias
ALIAS = re.compile(r"<->|->|(?<![0-9.][eE])\+|~|\||&|#|(?<![\w.\-$])vs(?![\w.\-])")


def split_code(line: str) -> tuple[str, bool]:
    """Return (code part with string literals blanked, has_comment). Strings are "..." with backslash escapes."""
    out = []
    i, n = 0, len(line)
    in_str = False
    while i < n:
        ch = line[i]
        if in_str:
            if ch == "\\" and i + 1 < n:
                out.append("__")
                i += 2
                continue
            if ch == '"':
                in_str = False
                out.append('"')
            else:
                out.append("_")
            i += 1
            continue
        if ch == '"':
            in_str = True
            out.append('"')
            i += 1
            continue
        if ch == "/" and i + 1 < n and line[i + 1] == "/":
            return "".join(out), True
        out.append(ch)
        i += 1
    return "".join(out), False


def strict_profile(text: str) -> list[tuple[str, int, str]]:
    bad: list[tuple[str, int, str]] = []
    if not text.endswith("\n"):
        bad.append(("final-newline", 0, "text does not end with a newline"))
    if text.endswith("\n\n"):
        bad.append(("final-newline", 0, "more than one final newline"))
    lines = text.split("\n")
    if lines and lines[-1] == "":
        lines.pop()
    i = 0
    # ---- opaque YAML frontmatter
    if lines and lines[0].strip() == "---":
        j = 1
        while j < len(lines) and lines[j].strip() != "---":
            j += 1
        if j < len(lines):
            i = j + 1
            while i < len(lines) and lines[i] == "":
                i += 1
    body = lines[i:]
    off = i
    if body and body[0].startswith("OCTAVE::"):
        body = body[1:]
        off += 1
    if not body or not re.match(r"^===[^=\s].*===$", body[0]) or body[0] == "===END===":
        bad.append(("envelope", off + 1, f"first line is not ===NAME===: {body[:1]!r}"))
    if not body or body[-1] != "===END===":
        bad.append(("envelope", len(lines), f"last line is not ===END===: {body[-1:]!r}"))

    stack: list[tuple[str, int]] = []  # (kind, indent) of open containers: 'block' | 'list'
    zone_fence: str | None = None
    for k, line in enumerate(lines[off:], start=off + 1):
        if zone_fence is not None:
            m = FENCE.match(line)
            if m and m.group(2) == zone_fence and m.group(3).strip() == "":
                zone_fence = None
                if line != line.rstrip():
                    bad.append(("trailing-space", k, repr(line)))
            continue
        if "\t" in line:
            bad.append(("tab", k, repr(line)))
        if line != line.rstrip(" \t"):
            bad.append(("trailing-space", k, repr(line)))
        if line.strip() == "":
            if line == "" and False:
                pass
            continue
        indent = len(line) - len(line.lstrip(" "))
        m = FENCE.match(line)
        code, has_comment = ("", False) if m else split_code(line)
        stripped = code.strip()
        pure_comment = (not m) and stripped == "" and has_comment
        # ---- indentation against the recogniser's own stack
        if stripped.startswith("]"):
            if stack and stack[-1][0] == "list":
                kind, ind = stack.pop()
                if indent != ind:
                    bad.append(("indent", k, f"closing bracket at {indent}, list opened at {ind}: {line!r}"))
            else:
                bad.append(("indent", k, f"closing bracket without open multi-line list: {line!r}"))
        elif stack and stack[-1][0] == "list":
            if indent != stack[-1][1] + 2 and not pure_comment:
                bad.append(("indent", k, f"list item at {indent}, expected {stack[-1][1] + 2}: {line!r}"))
        else:
            if pure_comment:
                limit = (stack[-1][1] + 2) if stack else 0
                if indent % 2 or indent > limit:
                    bad.append(("indent", k, f"comment at {indent}, innermost container allows <= {limit}: {line!r}"))
            else:
                while stack and stack[-1][1] >= indent:
                    stack.pop()
                want = (stack[-1][1] + 2) if stack else 0
                if indent != want:
                    bad.append(("indent", k, f"line at {indent}, expected {want} (2 per level): {line!r}"))
        if m:
            zone_fence = m.group(2)
            continue
        if pure_comment:
            continue
        # ---- operators and spacing in the code part
        for a in ALIAS.finditer(re.sub(r"\$[A-Za-z0-9_:]+|(?<=[\w.\-])<(?:[A-Za-z_][A-Za-z0-9_,]*)?>", lambda m: "_" * len(m.group(0)), code)):  # $VAR tokens and NAME<qualifier> are opaque
            bad.append(("ascii-alias", k, f"{a.group(0)!r} at col {a.start() + 1}: {line!r}"))
        if re.search(r" ::|:: ", re.sub(r"\$[A-Za-z0-9_:]+", lambda m: "_" * len(m.group(0)), code)):  # colons inside a $VAR token are not the assignment operator
            bad.append(("space-around-assign", k, repr(line)))
        # ---- containers opened by this line
        opens = code.count("[") - code.count("]")
        if stripped.startswith("]"):
            opens += 1  # the leading ] closed a list of an earlier line
        if opens > 0:
            stack.append(("list", indent))
        elif stripped.endswith(":") and not stripped.endswith("::") and not stripped.startswith("==="):
            stack.append(("block", indent))
        elif stripped.startswith("§") and "::" in stripped:
            stack.append(("block", indent))
    if zone_fence is not None:
        bad.append(("zone", len(lines), "unterminated literal zone"))
    return bad
