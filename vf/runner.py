"""./check <ID> [--tier quick|thorough] [--replay FILE]

Exit 0: property held on everything explored (known findings are listed as
KNOWN-FINDING lines).  Exit 1: at least one violation not listed in
known_findings.json; one line `VIOLATION property=<ID> replay=<path>` each.
Exit 2: harness error (never reported as a violation).
"""

from __future__ import annotations

import argparse
import glob
import hashlib
import importlib
import json
import os
import sys
import time
import traceback

from vf.common import VERIF_HOME, Ctx, Failure, Stats, short

KNOWN_FILE = os.path.join(VERIF_HOME, "known_findings.json")


def load_known(prop: str) -> list[dict]:
    try:
        with open(KNOWN_FILE) as fh:
            data = json.load(fh)
    except FileNotFoundError:
        return []
    return [f for f in data.get("findings", []) if f.get("property") == prop]


def shrink(mod, failure: Failure, budget_s: float) -> Failure:
    """Greedy structural minimisation: accept any candidate that still fails with the same signature."""
    cands = getattr(mod, "shrink_candidates", None)
    if cands is None:
        return failure
    t_end = time.time() + budget_s
    best = failure
    improved = True
    while improved and time.time() < t_end:
        improved = False
        try:
            it = iter(cands(best.case))
        except Exception:
            break
        while True:
            try:
                cand = next(it)
            except StopIteration:
                break
            except Exception:  # a candidate generator that trips over an unusual case shape ends the shrink, not the run
                break
            if time.time() > t_end:
                break
            try:
                fails = mod.check_case(cand)
            except Exception:
                continue
            hit = [f for f in fails if f.sig == failure.sig]
            if hit:
                best = Failure(failure.sig, cand, hit[0].detail)
                improved = True
                break
    return best


def write_replay(prop: str, failure: Failure) -> str:
    os.makedirs(os.path.join(VERIF_HOME, "replays"), exist_ok=True)
    body = json.dumps({"property": prop, **failure.to_json()}, indent=1, ensure_ascii=False, sort_keys=True)
    sha = hashlib.sha1(body.encode()).hexdigest()[:10]
    path = os.path.join(VERIF_HOME, "replays", f"{prop}-{sha}.json")
    with open(path, "w") as fh:
        fh.write(body + "\n")
    return path


def main(argv=None) -> int:
    try:  # kill -USR1 <pid> prints every thread's Python stack (diagnosing a stuck run); inherited by forked workers
        import faulthandler
        import signal

        faulthandler.register(signal.SIGUSR1, all_threads=True)
    except Exception:
        pass
    ap = argparse.ArgumentParser()
    ap.add_argument("prop")
    ap.add_argument("--tier", choices=["quick", "thorough"], default=None)
    ap.add_argument("--replay", default=None)
    ap.add_argument("--workers", type=int, default=None)
    args = ap.parse_args(argv)

    prop = args.prop.upper()
    tier = args.tier or os.environ.get("VERIF_TIER") or "quick"
    if tier not in ("quick", "thorough"):
        tier = "quick"
    try:
        seed = int(os.environ.get("VERIF_SEED", "1"))
    except ValueError:
        seed = 1
    workers = args.workers or int(os.environ.get("VERIF_WORKERS", "0")) or min(16, os.cpu_count() or 1)
    ctx = Ctx(prop=prop, tier=tier, seed=seed, workers=workers)

    try:
        mod = importlib.import_module(f"vf.props.{prop.lower()}")
    except Exception:
        print(f"HARNESS-ERROR property={prop} cannot import check module")
        traceback.print_exc()
        return 2

    known = load_known(prop)
    open_sigs = {f["sig"]: f for f in known if f.get("status") == "open"}

    # ---- replay of a single stored case ------------------------------------------------
    if args.replay:
        with open(args.replay) as fh:
            rec = json.load(fh)
        case = rec["case"] if "case" in rec else rec
        try:
            fails = mod.check_case(case)
        except Exception:
            print(f"HARNESS-ERROR property={prop} replay raised")
            traceback.print_exc()
            return 2
        rc = 0
        for f in fails:
            if f.sig in open_sigs:
                print(f"KNOWN-FINDING: property={prop} {f.sig}: {f.detail[:300]}")
            else:
                print(f"VIOLATION property={prop} replay={args.replay}")
                print(f"  sig={f.sig} detail={f.detail[:1000]}")
                rc = 1
        if not fails:
            print(f"OK property={prop} replay={args.replay}: no failure")
        return rc

    t0 = time.time()
    stats = Stats()
    # ---- 1. known findings: does each listed one still reproduce? ----------------------
    reproduced: dict[str, bool] = {}
    try:
        for f in known:
            ex = f.get("example")
            if ex is None:
                continue
            fails = mod.check_case(ex)
            if f.get("status") == "open":
                reproduced[f["sig"]] = any(x.sig == f["sig"] for x in fails)
                for x in fails:
                    if x.sig != f["sig"]:
                        stats.fail(x.sig, ex, x.detail)
            else:  # fixed entries suppress nothing: any failure on their example is reported
                for x in fails:
                    stats.fail(x.sig, ex, "regression of fixed finding: " + x.detail)
        # ---- 2. committed regression cases -------------------------------------------
        for path in sorted(glob.glob(os.path.join(VERIF_HOME, "regress", prop, "*.json"))):
            with open(path) as fh:
                rec = json.load(fh)
            case = rec["case"] if "case" in rec else rec
            stats.labels["regress_cases"] += 1
            for x in mod.check_case(case):
                stats.fail(x.sig, case, f"[{os.path.basename(path)}] " + x.detail)
        # ---- 3. the generated search ----------------------------------------------------
        stats.merge(mod.run(ctx))
    except Exception:
        print(f"HARNESS-ERROR property={prop} check raised")
        traceback.print_exc()
        return 2

    wall = time.time() - t0
    rc = 0
    if stats.harness_errors:
        for e in stats.harness_errors[:5]:
            print(f"HARNESS-ERROR property={prop}\n{e}")
        rc = 2

    # ---- classify ---------------------------------------------------------------------------
    violations = 0
    known_seen: dict[str, int] = {}
    for sig in sorted(set(stats.sig_counts) | {s for s, r in reproduced.items() if r}):
        cnt = stats.sig_counts.get(sig, 0)
        if sig in open_sigs:
            known_seen[sig] = cnt
            print(f"KNOWN-FINDING: property={prop} {sig}: {open_sigs[sig].get('what', '')} "
                  f"[{cnt} generated case(s) this run]")
            continue
        fl = stats.failures.get(sig, [])
        if not fl:
            continue
        best = shrink(mod, fl[0], 45.0 if tier == "quick" else 240.0)
        path = write_replay(prop, best)
        violations += 1
        print(f"VIOLATION property={prop} replay={path}")
        print(f"  sig={sig} count={cnt} detail={best.detail[:1500]}")
        if rc == 0:
            rc = 1
    for sig, ok in reproduced.items():
        if not ok:
            print(f"NOTE property={prop} listed finding {sig} did not reproduce on its stored example")

    # ---- evidence ---------------------------------------------------------------------------
    level = getattr(mod, "LEVEL", "exploration")
    coverage = {
        "evaluations": stats.evaluations,
        "distinct_nontrivial": stats.distinct_nontrivial,
        "rule": getattr(mod, "RULE", ""),
        "samples": stats.samples[: Stats.MAX_SAMPLES],
        "labels": dict(sorted(stats.labels.items())),
        "known_findings_seen": known_seen,
        "known_findings_reproduced_on_stored_example": reproduced,
        "unlisted_signatures": sorted(s for s in stats.sig_counts if s not in open_sigs),
        "notes": stats.notes,
    }
    if stats.exhaustive is not None:
        coverage["exhaustive"] = bool(stats.exhaustive)
    evidence = {
        "property_id": prop,
        "tier": tier,
        "seed": seed,
        "level": level,
        "coverage": coverage,
        "assumptions": list(getattr(mod, "ASSUMPTIONS", [])),
        "wall_s": round(wall, 2),
        "violations": violations,
    }
    os.makedirs(os.path.join(VERIF_HOME, "evidence"), exist_ok=True)
    with open(os.path.join(VERIF_HOME, "evidence", f"{prop}.json"), "w") as fh:
        json.dump(evidence, fh, indent=1, ensure_ascii=False, default=repr)
        fh.write("\n")
    print(f"{prop} tier={tier} seed={seed} evaluations={stats.evaluations} "
          f"distinct_nontrivial={stats.distinct_nontrivial} violations={violations} wall={wall:.1f}s")
    return rc


if __name__ == "__main__":
    try:
        _rc = main()
    except SystemExit:
        raise
    except BaseException:  # harness failure: never exit 1 (that code is reserved for a reported VIOLATION)
        import traceback

        traceback.print_exc()
        print("HARNESS-ERROR uncaught exception in the runner")
        _rc = 2
    sys.exit(_rc)
