"""Explicit content model of OCTAVE documents (DESIGN.md §2.1).

A document is generated as a JSON-able value, never as text, so the expected content is known
independently of the reader.  This module holds:

* the Hypothesis strategies (labelled value classes, keys, nodes, documents),
* `nf_model(doc)`  -- normal form of the model (structure + linearised comment sequence),
* `nf_ast(Document)` -- the same normal form computed from the repository's AST (the only place
  that touches AST field names),
* `shrink_candidates(doc)` -- structural minimisation steps shared by every document-based check.

JSON shapes
    doc   = {name, sentinel, frontmatter, meta:[[k, V | {"nested":[[k,V]]}]], sep, body:[node], trailing:[str]}
    node  = {t:"assign", key, value:V, lead:[str], trail:str|None}
          | {t:"block", key, target, kids:[node], lead:[str], tail:[str]}       tail = orphan comments at block end
          | {t:"section", id, name, ann, kids:[node], lead:[str], tail:[str]}
          | {t:"zone", zone:Z, lead:[str]}                                      bare literal zone (block child)
    V     = {v:"str", s, cls} | {v:"int", i:str} | {v:"float", f:repr} | {v:"bool", b} | {v:"null"}
          | {v:"list", items:[V | {v:"pair", key, value:V}]} | {v:"holo", example:V, chain:[str], target}
          | {v:"zone", content, tag, fence}
"""

from __future__ import annotations

import re
import unicodedata
from typing import Any

from hypothesis import strategies as st

RESERVED = {"true", "false", "null", "vs", "META", "OCTAVE", "END"}
OPS = "→⊕⧺⇌∧∨@"
PLAIN = re.compile(r"^[A-Za-z_][A-Za-z0-9_]*\Z")


def nfc(s: str) -> str:
    return unicodedata.normalize("NFC", s)


# ---------------------------------------------------------------------------------------------- strategies
def ident(max_len: int = 7):
    return st.from_regex(r"[A-Za-z_][A-Za-z0-9_]{0,%d}" % (max_len - 1), fullmatch=True).filter(
        lambda s: s not in RESERVED and not _has_vs(s) and s not in ("True", "False", "TRUE", "FALSE", "Null", "NULL"))


def _has_vs(s: str) -> bool:
    # identifiers with an embedded 'vs' trigger an (unrelated) spec_violation warning; keep the domain clean
    return "vs" in s.lower()


WORD = ident(8)
FILTER_KEYS = ["STATUS", "RISKS", "DECISIONS", "TESTS", "CI", "DEPS"]
KEY = st.one_of(
    ident(7), ident(7), ident(5),
    st.sampled_from(FILTER_KEYS + ["A.b", "x-y", "K9", "a.b-c", "PATTERN", "REGEX", "TYPE", "NAME", "ID"]),
    # words the format itself uses (sentinel, envelope, section and block names) as ordinary keys
    st.sampled_from(["OCTAVE", "END", "SEAL", "FIELDS", "POLICY", "CONTRACT", "VERSION", "GRAMMAR"]),
)
SECTION_ID = st.sampled_from(["1", "2", "2b", "12", "0", "CONTEXT", "DEFS", "3c"])

COMMENT = st.one_of(
    st.from_regex(r"[a-z][a-z0-9 ]{0,10}[a-z0-9]", fullmatch=True),
    st.sampled_from(["note -> not an arrow", 'has "quotes" and :: inside', "a + b | c & d", "#tag §ref", "x vs y",
                     "see [1,2]", "===END===", "TODO: fix", "héllo wörld", "trailing // double"]),
)

CHAIN_POOL = ["REQ", "OPT", "ENUM[A,B]", "ENUM[ACTIVE,DRAFT,DONE]", "TYPE[STRING]", "TYPE[NUMBER]", "TYPE[BOOLEAN]",
              "TYPE[LIST]", "CONST[X]", "REGEX[\"^[a-z]+$\"]", "RANGE[1,10]", "MIN_LENGTH[1]", "MAX_LENGTH[9]",
              "DATE", "ISO8601", "DIR", "APPEND_ONLY"]


def expr_str():
    """Operator expression A→B⊕C (no reserved words, no spaces): bare-able."""
    return st.builds(
        lambda ws, ops: ws[0] + "".join(o + w for o, w in zip(ops, ws[1:])),
        st.lists(WORD, min_size=2, max_size=4),
        st.lists(st.sampled_from(OPS), min_size=3, max_size=3),
    )


def expr_pct_str():
    """Operator expression with NUMBER% operands (10%→50%→done): quoted canonically, may be written bare."""
    operand = st.one_of(st.sampled_from(["10%", "50%", "100%", "12.5%", "25%_done", "0%"]), WORD)
    return st.builds(
        lambda first, ws, ops: first + "".join(o + w for o, w in zip(ops, ws)),
        st.sampled_from(["10%", "7.5%", "25%_done"]), st.lists(operand, min_size=1, max_size=3),
        st.lists(st.sampled_from([o for o in OPS if o != "∧"]), min_size=3, max_size=3),
    )


HOSTILE_ATOMS = list("ab1 _.-/:[],<>{}$#§→⊕∧|&+~%=;()\"\\'") + [
    "\n", "\t", "\u00e9", "e\u0301", "\U0001F600", "::", "//", "true", "null", "vs", "->", "<->", "```", "===", "---",
    "\x0c", "\x85", "\u2028", "\x1c", "\r", "\\u0041", "\\x41", "\\N{DASH}", "%41"]  # (FF, NEL, LS, FS: line breaks for str.splitlines(), ordinary data for OCTAVE)


def nearbare():
    """Strings one or two edits away from a shape the emitter writes bare (annotation, constructor, expression,
    variable, dotted word, version, section reference): they sit on the boundary of the quoting decision, where the
    emitter's patterns and the lexer's tokenisation have to agree."""
    seg = st.one_of(WORD, st.sampled_from(["pre-", "a.b", "x-y", "v1.2", "A_", "-a", "a-", "_", "9z", "true", "vs", "null"]))
    base = st.one_of(
        st.builds(lambda a, bs: f"{a}<{','.join(bs)}>", seg, st.lists(seg, min_size=0, max_size=3)),
        st.builds(lambda ws, ops: ws[0] + "".join(o + w for o, w in zip(ops, ws[1:])),
                  st.lists(seg, min_size=2, max_size=3), st.lists(st.sampled_from(OPS), min_size=2, max_size=2)),
        st.builds(lambda a, b: f"${a}:{b}", seg, seg),
        st.builds(lambda a, b, c: f"{a}.{b}-{c}", seg, seg, seg),
        st.builds(lambda a: "§" + a, seg),
        st.sampled_from(["1.2.3", "1.0-beta", "1.0+b", "6.02e+23", "1e5", "-0", "2.5E-7", "1.", ".5", "1.2.3-", "0x1F"]),
        # a number glued to a suffix: the text of the number must survive as written
        st.sampled_from(["12.50%", "007%", "1e3%", "0.10%", "100%_complete", "+5%", "-0%", "1.0%", "60%", "5.0kg", "1_000", "3.140"]),
        # path and URL shapes: '.', '/' and '-' are identifier characters for the lexer, '//' starts a comment
        st.sampled_from(["//cdn.example.com/lib.js", "//server/share", "//", "/", "/usr/bin", "./x", "../up", "a//b",
                         "docs/guide.md", "a/b", "/-", "http://x.y/z", "x//", ".hidden", "a/true", "-/"]),
        # text ending in a backslash (its closing quote follows an escaped backslash) and template placeholders NAME{slot}
        st.sampled_from(["C:\\templates\\", "dir\\NAME{x}\\", "\\", "a\\\\", "NAME{slot}", "x{y}\\", "\\ K{v}", "see TPL{id} \\"]),
    )
    edit = st.tuples(st.integers(0, 40), st.sampled_from(list("-.,<>_:$§→∧ ") + ["", "", "<>", "::", ",,"]), st.booleans())

    def apply(b, e):
        pos, ins, replace = e
        pos = pos % (len(b) + 1)
        return b[:pos] + ins + b[pos + (1 if replace else 0):]

    return st.builds(lambda b, e1, e2, two: apply(apply(b, e1), e2) if two else apply(b, e1), base, edit, edit, st.booleans())


def str_value(avoid: frozenset = frozenset()):
    """Labelled string classes. `bare` spellings are decided by the renderers from `cls`."""
    S = lambda cls: (lambda s: {"v": "str", "s": nfc(s), "cls": cls})  # noqa: E731
    hostile = st.lists(st.sampled_from(HOSTILE_ATOMS), min_size=0, max_size=8).map("".join)
    if "cr" in avoid:
        hostile = hostile.map(lambda s: s.replace("\r", ""))
    if "nfc_after_escape" in avoid:
        hostile = hostile.filter(lambda s: not re.search(r"[\n\t][̀-ͯ]", s))
    classes = [
        WORD.map(S("word")), WORD.map(S("word")),
        st.builds(lambda a, b, sep: a + sep + b, WORD, WORD, st.sampled_from([".", "-", "/", "_", ".x/"])).map(S("dotted")),
        st.sampled_from(["1.2.3", "0.1.0", "1.0-beta", "2.10.3-rc.1", "1.0+build", "5.1.0"]).map(S("version")),
        st.sampled_from(["$VAR", "$1:name", "$MY_VAR123", "$x"]).map(S("variable")),
        st.builds(lambda w: "§" + w, st.one_of(WORD, st.sampled_from(["1", "3", "12"]))).map(S("secref")),
        expr_str().map(S("expr")),
        expr_pct_str().map(S("expr_pct")),
        st.builds(lambda a, b: f"{a}<{b}>", WORD, WORD).map(S("annotation")),
        # annotation shape with a non-ASCII letter: always quoted canonically; NAME{q} with such a name is repaired by the
        # lenient tokenizer and (documented limitation) may be refused by octave_write(lenient=true)
        st.sampled_from(["CAFÉ<strong>", "NAME<qualité>", "Ünï<x>", "naïve_x<ß>"]).map(S("annotation_u")),
        # NUMBER% (optionally with a word glued on): quoted canonically, may be written bare; the number's text is kept as written
        st.sampled_from(["60%", "12.50%", "007%", "1e3%", "0.10%", "100%_complete", "-0%", "1.0%", "-2.50%", "25%_done", "3.140%"]).map(S("percent")),
        st.builds(lambda a, bs: f"{a}<{','.join(bs)}>", WORD, st.lists(WORD, min_size=0, max_size=3)).map(S("constructor")),
        st.lists(WORD, min_size=2, max_size=4).map(" ".join).map(S("multiword")),
        st.builds(lambda w0, ts: " ".join([w0] + ts), WORD,
                  st.lists(st.one_of(WORD, st.sampled_from(["42", "3.14", "1.2.3", "true", "null", '"q s"', '"List<int>"', '"<b>"',
                                                            '"a -> b"', '""', '"x"'])), min_size=1, max_size=4)).map(S("multiword_mixed")),
        # a bare multi-word value led by a literal (quoted word, boolean, null, version): coalesced like any other
        st.builds(lambda f, ws: " ".join([f] + ws), st.sampled_from(['"draft"', '"a b"', "true", "false", "null", "1.0.0", '""']),
                  st.lists(WORD, min_size=1, max_size=3)).map(S("multiword_litfirst")),
        st.sampled_from(["true", "false", "null", "vs", "True", "NULL", "False"]).map(S("reservedlike")),
        st.sampled_from(["42", "-1e5", "007", "3.14", "1e400", "-0", "0x10", "1_000", "+5"]).map(S("numlike")),
        st.sampled_from(["", " ", "// c", "===END===", "---", "A::B", "[a,b]", "60%", "a\\nb", "tab\there", "x\ny",
                         "say \"hi\"", "back\\slash", "#tag", "a -> b", "a vs b", "A+B", "p|q", "x & y", "k::v",
                         "```", "$", "§", "<x>", "{y}", "a,b", "trailing ", " leading", "café", "é",
                         "\U0001F600 smile", "ünïcödé", "//x", "//cdn.example.com/lib.js", "/usr/bin", "./x", "--flag", "-x",
                         # expression shapes with a reserved word as an operand (must stay quoted)
                         "speed⇌cost⇌quality", "a⇌b⇌c", "draft→null", "review→false", "a⊕true", "x⇌vs", "null→a", "true∧b", "a→b→null", "NAME<null>", "NAME<true,b>"]).map(S("special")),
        hostile.map(S("hostile")), hostile.map(S("hostile")),
        nearbare().map(S("nearbare")), nearbare().map(S("nearbare")),
    ]
    return st.one_of(*classes)


INT = st.one_of(st.integers(-1000, 1000), st.integers(-(2**70), 2**70)).map(lambda i: {"v": "int", "i": str(i)})
FLOAT = st.one_of(
    st.floats(allow_nan=False, allow_infinity=False, width=64),
    st.sampled_from([0.5, -2.25, 1e16, 1e-7, 1e22, 0.0, -0.0, 123.456, 1e308, 5e-324]),
).map(lambda f: {"v": "float", "f": repr(float(f))})
BOOL = st.booleans().map(lambda b: {"v": "bool", "b": b})
NULL = st.just({"v": "null"})


def atom(avoid=frozenset()):
    s = str_value(avoid)
    return st.one_of(s, s, s, INT, FLOAT, BOOL, NULL)


def zone_value(avoid=frozenset()):
    line = st.one_of(
        st.lists(st.sampled_from(HOSTILE_ATOMS[:-1] + ["  ", "KEY::v", "===END===", "---", "// c", "`", "``", "\\n", "\\t",
                                                       "é", "é", "def f():", "    return 1", "\x0c", "\x85", "\u2028"]),
                 min_size=0, max_size=5).map("".join).map(lambda s: s.replace("\n", "").replace("\r", "")),
        st.sampled_from(["", " ", "\tindented with tab", "  two spaces", "trailing   ", "x = [1, 2]", "a -> b", "A::B",
                         "===END===", "---", "``", "` `` `", "\"quoted\"", "back\\slash\\n", "é nfd", "#!/bin/sh",
                         "FOO{bar}", "\\textbf{bold} and \\section{Results}", "say \"hi\" then name{q}",
                         "// see http://x.y/z then K{v}", "K::NAME{q}", "\"\"\"triple\"\"\" A{b}", "two words here",
                         "A::x -> y vs z"]),
    )
    def mk(lines, tag, n):
        fence = "`" * n
        # a content line must not look like a fence of equal or greater length (the format cannot hold it)
        lines = [ln for ln in lines if not re.match(r"^ *`{%d,}" % n, ln)]
        if lines == [""] and "zone_one_blank" in avoid:
            lines = []
        # `lines` is the ground truth (a zone holding one empty line differs from the empty zone only there)
        return {"v": "zone", "content": "\n".join(lines), "tag": tag, "fence": fence, "lines": lines}
    tags = st.sampled_from([None, None, "python", "json5+x", "sh", "text"])
    return st.builds(mk, st.one_of(st.lists(line, min_size=0, max_size=5), st.lists(line, min_size=2, max_size=6),
                                   st.lists(line, min_size=1, max_size=3)), tags, st.sampled_from([3, 3, 3, 4, 5, 6]))


def holo_value(avoid=frozenset()):
    ex = st.one_of(
        st.sampled_from(["example", "a b", "x-1", "ACTIVE", "2024-01-15"]).map(lambda s: {"v": "str", "s": s, "cls": "holo_ex"}),
        st.integers(0, 99).map(lambda i: {"v": "int", "i": str(i)}), BOOL, NULL,
    )
    chain = st.lists(st.sampled_from(CHAIN_POOL), min_size=1, max_size=3, unique=True)
    tgt = st.one_of(st.none(), st.none(), st.sampled_from(["SELF", "INDEXER", "META"]))
    return st.builds(lambda e, c, t: {"v": "holo", "example": e, "chain": c, "target": t}, ex, chain, tgt)


ZONE_WEIGHT = [1]  # module-level knob: C05 raises it so that most documents carry several zones


def value(depth: int = 2, avoid=frozenset(), zones: bool = False, holo: bool = True):
    a = atom(avoid)
    if depth <= 0:
        return a
    pair = st.builds(lambda k, v: {"v": "pair", "key": k, "value": v}, st.one_of(ident(5), st.sampled_from(["PATTERN", "REGEX", "k1"])), a)
    item = st.one_of(a, a, pair, pair, st.deferred(lambda: value(depth - 1, avoid, False, False)))
    lst = st.one_of(st.just([]), st.lists(item, min_size=1, max_size=5), st.lists(item, min_size=2, max_size=5),
                    st.lists(item, min_size=3, max_size=6)).map(lambda xs: {"v": "list", "items": xs})
    opts = [a, a, a, lst, lst]
    if holo:
        opts.append(holo_value(avoid))
    if zones:
        opts.extend([zone_value(avoid)] * ZONE_WEIGHT[0])
    return st.one_of(*opts)


def node(depth: int, avoid=frozenset(), zones: bool = True, comments: bool = True, max_kids: int = 4, empty_containers: bool = True,
         in_block: bool = False):
    lead = st.lists(COMMENT, max_size=2) if comments else st.just([])
    lead1 = st.lists(COMMENT, max_size=1) if comments else st.just([])
    trail = st.one_of(st.none(), st.none(), COMMENT) if comments else st.none()
    assign = st.builds(lambda k, v, l, t: {"t": "assign", "key": k, "value": v, "lead": l, "trail": (None if v["v"] == "zone" else t)},
                       KEY, value(2, avoid, zones), lead, trail)
    if depth <= 0:
        if zones and in_block:
            return st.one_of(assign, assign, assign, assign,
                             st.builds(lambda z, l: {"t": "zone", "zone": z, "lead": l}, zone_value(avoid), lead1))
        return assign
    mk = 0 if empty_containers else 1
    bkids = st.lists(st.deferred(lambda: node(depth - 1, avoid, zones, comments, max_kids, empty_containers, True)),
                     min_size=mk, max_size=max_kids)
    skids = st.lists(st.deferred(lambda: node(depth - 1, avoid, zones, comments, max_kids, empty_containers, False)),
                     min_size=mk, max_size=max_kids)
    tail = st.lists(COMMENT, max_size=1) if comments else st.just([])
    block = st.builds(lambda k, t, ks, l, tl: {"t": "block", "key": k, "target": t, "kids": ks, "lead": l, "tail": tl if ks else []},
                      KEY, st.one_of(st.none(), st.none(), ident(6)), bkids, lead1, tail)
    section = st.builds(
        lambda i, n, a, ks, l, tl: {"t": "section", "id": i, "name": n, "ann": a, "kids": ks, "lead": l, "tail": tl if ks else []},
        SECTION_ID, ident(8), st.one_of(st.none(), st.none(), st.lists(WORD, min_size=1, max_size=3).map(",".join)), skids, lead1, tail)
    opts = [assign, assign, assign, block, section]
    if zones and in_block:
        # bare literal zones are only a supported construct directly inside a block body
        opts.extend([st.builds(lambda z, l: {"t": "zone", "zone": z, "lead": l}, zone_value(avoid), lead1)] * ZONE_WEIGHT[0])
    return st.one_of(*opts)


FRONTMATTER = st.one_of(
    st.none(), st.none(), st.none(),
    st.lists(st.sampled_from(["name: agent", "description: Does things (carefully)", "tools: [a, b]", "# yaml comment",
                              "key: \"quoted: value\"", "tabbed:\tvalue", "  nested: 1", "émoji: 😀", "a: b -> c", "form\x0cfeed: 1", "nel\x85x: 2",
                              "ls\u2028sep: 3", "tmpl: foo{bar}", "q: \"unbalanced"]),
             min_size=1, max_size=4).map("\n".join),
)


def document(depth: int = 3, avoid=frozenset(), zones: bool = True, comments: bool = True, max_nodes: int = 5,
             frontmatter: bool = True, sentinel: bool = True, meta_nested: bool = True, empty_containers: bool = True,
             meta_zones: bool = False):
    mval = value(1, avoid, meta_zones, True)
    # children of a nested META block: any value, or (one time in three) one of the "nothing-like" values that code tends
    # to confuse with absent (null, "", 0, 0.0, false, []), so that blocks holding only such values are generated
    nothing = st.sampled_from([{"v": "null"}, {"v": "str", "s": "", "cls": "special"}, {"v": "int", "i": "0"}, {"v": "float", "f": "0.0"},
                               {"v": "bool", "b": False}, {"v": "list", "items": []}])
    nkids = lambda vs: st.lists(st.tuples(ident(6), vs).map(list), min_size=1, max_size=3, unique_by=lambda kv: kv[0]).map(lambda kv: {"nested": kv})
    nested = st.one_of(nkids(value(1, avoid, False, False)), nkids(value(1, avoid, False, False)), nkids(nothing))
    mitem = st.tuples(st.one_of(ident(7), st.sampled_from(["TYPE", "VERSION", "STATUS", "CONTRACT"])),
                      st.one_of(mval, mval, mval, nested) if meta_nested else mval).map(list)
    meta = st.lists(mitem, max_size=4, unique_by=lambda kv: kv[0])
    top = node(depth - 1, avoid, zones, comments, 4, empty_containers, False)
    body = st.lists(top, max_size=max_nodes)
    def post(d):
        if "sections" in avoid:
            d = sections_to_blocks(d)
        if "dup_keys" in avoid:
            d = unique_sibling_keys(d)
        if "holo" in avoid:
            d = replace_holo(d)
        d = drop_zone_after_empty_block(d)
        return strip_comments_after_empty(d) if "comment_after_empty" in avoid else d
    return st.builds(
        lambda name, sen, fm, m, sep, b, tr: post({"name": name, "sentinel": None if fm else sen, "frontmatter": fm, "meta": m,
                                                   "sep": sep, "body": b, "trailing": tr}),
        ident(8),
        st.one_of(st.none(), st.none(), st.sampled_from(["5.1.0", "6", "5.1.0-beta.1"])) if sentinel else st.none(),
        FRONTMATTER if frontmatter else st.none(),
        meta, st.booleans(), body,
        st.lists(COMMENT, max_size=2) if comments else st.just([]),
    )


# ---------------------------------------------------------------------------------------------- normal forms
def pyval(V) -> Any:
    k = V["v"]
    if k == "str":
        return V["s"]
    if k == "int":
        return int(V["i"])
    if k == "float":
        return float(V["f"])
    if k == "bool":
        return V["b"]
    if k == "null":
        return None
    raise ValueError(k)


def zone_lines(Z) -> list:
    if Z.get("lines") is not None:
        return list(Z["lines"])
    return Z["content"].split("\n") if Z["content"] != "" else []


def nf_value(V):
    k = V["v"]
    if k == "str":
        return ("str", nfc(V["s"]))
    if k == "int":
        return ("int", int(V["i"]))
    if k == "float":
        f = float(V["f"])
        return ("float", repr(f))
    if k == "bool":
        return ("bool", V["b"])
    if k == "null":
        return ("null",)
    if k == "list":
        return ("list", tuple(nf_value(i) for i in V["items"]))
    if k == "pair":
        return ("pair", V["key"], nf_value(V["value"]))
    if k == "holo":
        return ("holo", nf_value(V["example"]), "∧".join(V["chain"]), V["target"])
    if k == "zone":
        return ("zone", V["content"], V["tag"], V["fence"])
    raise ValueError(k)


def _nf_nodes(nodes, seq, ctr, empties=None):
    out = []
    for n in nodes:
        for c in n.get("lead", []):
            seq.append(("c", c))
        ctr[0] += 1
        seq.append(("f", ctr[0]))
        if empties is not None and n["t"] in ("block", "section") and not n["kids"]:
            empties.add(len(seq) - 1)
        if n["t"] == "assign":
            out.append(("assign", n["key"], nf_value(n["value"])))
            if n.get("trail"):
                seq.append(("t", n["trail"]))
        elif n["t"] == "zone":
            out.append(("assign", "", nf_value(n["zone"])))
        elif n["t"] == "block":
            kids = _nf_nodes(n["kids"], seq, ctr, empties)
            for c in n.get("tail", []):
                seq.append(("c", c))
            out.append(("block", n["key"], n["target"], kids))
        elif n["t"] == "section":
            kids = _nf_nodes(n["kids"], seq, ctr, empties)
            for c in n.get("tail", []):
                seq.append(("c", c))
            out.append(("section", n["id"], n["name"], n["ann"], kids))
        else:
            raise ValueError(n["t"])
    return tuple(out)


def nf_model(doc):
    """(structure, comment sequence)."""
    seq: list = []
    body = _nf_nodes(doc["body"], seq, [0])
    for c in doc.get("trailing", []):
        seq.append(("c", c))
    meta = tuple(
        (k, ("nested", tuple((k2, nf_value(v2)) for k2, v2 in v["nested"])) if "nested" in v else nf_value(v))
        for k, v in doc["meta"]
    )
    fm = doc.get("frontmatter")
    struct = (doc["name"], doc.get("sentinel"), fm if (fm is not None and fm.strip()) else None, meta, bool(doc["sep"]), body)
    return struct, tuple(seq)


def comments_after_empty(doc) -> set:
    """Indices (into nf_model(doc)[1]) of stand-alone comments in the run directly after an empty container's header."""
    seq: list = []
    empties: set = set()
    _nf_nodes(doc["body"], seq, [0], empties)
    for c in doc.get("trailing", []):
        seq.append(("c", c))
    out = set()
    for i, e in enumerate(seq):
        if e[0] != "c":
            continue
        j = i - 1
        while j >= 0 and seq[j][0] == "c":
            j -= 1
        if j >= 0 and j in empties:
            out.add(i)
    return out


def strip_comments_after_empty(doc):
    """Construction-time exclusion of the known class: remove exactly the comments comments_after_empty() points at."""
    state = {"after_empty": False}

    def take(comments):
        if state["after_empty"]:
            return []
        return comments

    def rec(nodes):
        out = []
        for n in nodes:
            n = dict(n)
            if "lead" in n:
                n["lead"] = take(n["lead"])
            state["after_empty"] = False
            if n["t"] in ("block", "section"):
                if not n["kids"]:
                    state["after_empty"] = True
                else:
                    n["kids"] = rec(n["kids"])
                    n["tail"] = take(n.get("tail", []))
                    # a tail comment (if any) ends the run; an empty tail keeps the flag for the next sibling
                    if n["tail"]:
                        state["after_empty"] = False
            if n["t"] == "assign" and n.get("trail"):
                state["after_empty"] = False
            out.append(n)
        return out

    body = rec(doc["body"])
    trailing = take(doc.get("trailing", []))
    return {**doc, "body": body, "trailing": trailing}


def sections_to_blocks(doc):
    def rec(nodes):
        out = []
        for n in nodes:
            if n["t"] == "section":
                n = {"t": "block", "key": "S" + re.sub(r"\W", "", n["id"]) + "_" + n["name"], "target": None, "kids": rec(n["kids"]), "lead": n["lead"], "tail": n["tail"]}
            elif n["t"] == "block":
                n = {**n, "kids": rec(n["kids"])}
            out.append(n)
        return out
    return {**doc, "body": rec(doc["body"])}


def unique_sibling_keys(doc):
    def rec(nodes):
        used: set = set()
        out = []
        for n in nodes:
            if n["t"] in ("assign", "block"):
                k = n["key"]
                j = 1
                while k in used:
                    j += 1
                    k = f"{n['key']}_{j}"
                used.add(k)
                if k != n["key"]:
                    n = {**n, "key": k}
            if n["t"] in ("block", "section"):
                n = {**n, "kids": rec(n["kids"])}
            out.append(n)
        return out
    return {**doc, "body": rec(doc["body"])}


def replace_holo(doc):
    def fix(V):
        if V["v"] == "holo":
            return {"v": "str", "s": "pattern", "cls": "word"}
        if V["v"] == "list":
            return {**V, "items": [({**i, "value": fix(i["value"])} if i["v"] == "pair" else fix(i)) for i in V["items"]]}
        return V

    def rec(nodes):
        out = []
        for n in nodes:
            if n["t"] == "assign":
                n = {**n, "value": fix(n["value"])}
            elif n["t"] in ("block", "section"):
                n = {**n, "kids": rec(n["kids"])}
            out.append(n)
        return out
    meta = [[k, (v if "nested" in v else fix(v))] for k, v in doc["meta"]]
    return {**doc, "meta": meta, "body": rec(doc["body"])}


def drop_zone_after_empty_block(doc):
    """Soundness of the generator: `KEY:` directly followed by a fence at the same indentation is the documented
    GH#259 spelling of "KEY holds this literal zone", so an empty block followed by a bare-zone sibling cannot be
    written as text. Such zone siblings are removed from generated documents."""
    def rec(nodes):
        out = []
        for n in nodes:
            if n["t"] == "zone" and out and out[-1]["t"] in ("block", "section") and not out[-1]["kids"]:
                continue
            if n["t"] in ("block", "section"):
                n = {**n, "kids": rec(n["kids"])}
                if not n["kids"]:
                    n["tail"] = []
            out.append(n)
        return out
    return {**doc, "body": rec(doc["body"])}


def ast_value(v):
    from octave_mcp.core.ast_nodes import HolographicValue, InlineMap, ListValue, LiteralZoneValue

    if isinstance(v, bool):
        return ("bool", v)
    if v is None:
        return ("null",)
    if isinstance(v, int):
        return ("int", v)
    if isinstance(v, float):
        return ("float", repr(v))
    if isinstance(v, str):
        return ("str", v)
    if isinstance(v, ListValue):
        return ("list", tuple(ast_value(i) for i in v.items))
    if isinstance(v, InlineMap):
        if len(v.pairs) == 1:
            ((k, x),) = v.pairs.items()
            return ("pair", k, ast_value(x))
        return ("map", tuple((k, ast_value(x)) for k, x in v.pairs.items()))
    if isinstance(v, HolographicValue):
        chain = v.constraints.to_string() if v.constraints is not None else ""
        # the chain's own printer spells TYPE[X] as TYPE(X); spelling, not content
        chain = re.sub(r"TYPE\((\w+)\)", r"TYPE[\1]", chain)
        return ("holo", ast_value(v.example), chain, v.target)
    if isinstance(v, LiteralZoneValue):
        return ("zone", v.content, v.info_tag, v.fence_marker)
    if isinstance(v, dict):
        return ("nested", tuple((k, ast_value(x)) for k, x in v.items()))
    return ("other", type(v).__name__, repr(v)[:80])


def _ast_nodes(nodes, seq, ctr):
    from octave_mcp.core.ast_nodes import Assignment, Block, Comment, Section

    out = []
    for n in nodes:
        if isinstance(n, Comment):
            seq.append(("c", n.text))
            continue
        for c in getattr(n, "leading_comments", None) or []:
            seq.append(("c", c))
        ctr[0] += 1
        seq.append(("f", ctr[0]))
        if isinstance(n, Assignment):
            out.append(("assign", n.key, ast_value(n.value)))
            if n.trailing_comment:
                seq.append(("t", n.trailing_comment))
        elif isinstance(n, Block):
            out.append(("block", n.key, n.target, _ast_nodes(n.children, seq, ctr)))
        elif isinstance(n, Section):
            out.append(("section", n.section_id, n.key, n.annotation, _ast_nodes(n.children, seq, ctr)))
        else:
            out.append(("other", type(n).__name__))
    return tuple(out)


def nf_ast(d):
    seq: list = []
    body = _ast_nodes(d.sections, seq, [0])
    for c in d.trailing_comments or []:
        seq.append(("c", c))
    meta = tuple((k, ast_value(v)) for k, v in d.meta.items())
    fm = d.raw_frontmatter
    struct = (d.name, d.grammar_version, fm if (fm is not None and fm.strip()) else None, meta, bool(d.has_separator), body)
    return struct, tuple(seq)


def first_diff(a, b, path="") -> str:
    """Human-readable location of the first difference between two normal forms."""
    if type(a) is not type(b):
        return f"{path}: {a!r} != {b!r}"[:500]
    if isinstance(a, tuple):
        if len(a) != len(b):
            # find first differing element for a better message
            for i, (x, y) in enumerate(zip(a, b)):
                if x != y:
                    return first_diff(x, y, f"{path}[{i}]")
            return f"{path}: length {len(a)} != {len(b)}; extra={(a[len(b):] or b[len(a):])!r}"[:500]
        for i, (x, y) in enumerate(zip(a, b)):
            if x != y:
                return first_diff(x, y, f"{path}[{i}]")
        return ""
    return "" if a == b else f"{path}: {a!r} != {b!r}"[:500]


# ---------------------------------------------------------------------------------------------- walking / features
def walk_values(doc):
    """Yield (position, V) for every value in the document (including list items and pair values)."""
    def rec_v(pos, V):
        yield pos, V
        if V["v"] == "list":
            for it in V["items"]:
                if it["v"] == "pair":
                    yield "pair", it
                    yield from rec_v("pairvalue", it["value"])
                else:
                    yield from rec_v("item", it)
        elif V["v"] == "holo":
            yield from rec_v("holo_example", V["example"])

    for k, v in doc["meta"]:
        if "nested" in v:
            for _, v2 in v["nested"]:
                yield from rec_v("metanested", v2)
        else:
            yield from rec_v("meta", v)

    def rec_n(nodes, where):
        for n in nodes:
            if n["t"] == "assign":
                yield from rec_v(where, n["value"])
            elif n["t"] == "zone":
                yield where + "_barezone", n["zone"]
            else:
                yield from rec_n(n["kids"], "blockchild" if n["t"] == "block" else "sectionchild")

    yield from rec_n(doc["body"], "top")


def walk_nodes(doc):
    def rec(nodes, depth):
        for n in nodes:
            yield depth, n
            if n["t"] in ("block", "section"):
                yield from rec(n["kids"], depth + 1)
    yield from rec(doc["body"], 0)


def features(doc) -> set[str]:
    f: set[str] = set()
    maxd = 0
    ncomments = len(doc.get("trailing", []))
    for depth, n in walk_nodes(doc):
        maxd = max(maxd, depth)
        f.add("node_" + n["t"])
        ncomments += len(n.get("lead", [])) + len(n.get("tail", [])) + (1 if n.get("trail") else 0)
        if n["t"] in ("block", "section") and not n["kids"]:
            f.add("empty_container")
        if n["t"] == "block" and n["target"]:
            f.add("block_target")
        if n["t"] == "section" and n["ann"]:
            f.add("section_annotation")
    if maxd >= 1:
        f.add("depth>=2")
    if maxd >= 2:
        f.add("depth>=3")
    if ncomments:
        f.add("comments")
    if doc["meta"]:
        f.add("meta")
    if any("nested" in v for _, v in doc["meta"]):
        f.add("meta_nested")
    if doc.get("frontmatter"):
        f.add("frontmatter")
    if doc.get("sentinel"):
        f.add("sentinel")
    for pos, V in walk_values(doc):
        f.add("v_" + V["v"])
        if V["v"] == "str":
            f.add("str_" + V["cls"])
        if V["v"] in ("zone",):
            f.add("zone_at_" + pos)
    keys = [n.get("key") for _, n in walk_nodes(doc) if n["t"] in ("assign", "block")]
    if len(keys) != len(set(keys)):
        f.add("dup_or_repeated_key")
    return f


def nontrivial(doc) -> bool:
    f = features(doc)
    return bool(f & {"depth>=2", "comments", "v_list", "v_int", "v_float", "v_bool", "v_null", "v_holo", "v_zone",
                     "str_expr", "str_annotation", "str_hostile", "str_special", "str_nearbare"})


# ---------------------------------------------------------------------------------------------- shrinking
def _simpler_values(V):
    k = V["v"]
    if k == "str":
        s = V["s"]
        if s != "a":
            yield {"v": "str", "s": "a", "cls": "word"}
        for i in range(len(s)):
            yield {**V, "s": s[:i] + s[i + 1:]}
    elif k == "list":
        items = V["items"]
        for i in range(len(items)):
            yield {**V, "items": items[:i] + items[i + 1:]}
        for i, it in enumerate(items):
            if it["v"] == "pair":
                for sv in _simpler_values(it["value"]):
                    yield {**V, "items": items[:i] + [{**it, "value": sv}] + items[i + 1:]}
            else:
                for sv in _simpler_values(it):
                    yield {**V, "items": items[:i] + [sv] + items[i + 1:]}
        yield {"v": "str", "s": "a", "cls": "word"}
    elif k == "zone":
        lines = zone_lines(V)
        for i in range(len(lines)):
            ls = lines[:i] + lines[i + 1:]
            yield {**V, "content": "\n".join(ls), "lines": ls}
        if V["tag"]:
            yield {**V, "tag": None}
        for i, ln in enumerate(lines):
            for j in range(len(ln)):
                ls = lines[:i] + [ln[:j] + ln[j + 1:]] + lines[i + 1:]
                yield {**V, "content": "\n".join(ls), "lines": ls}
    elif k == "holo":
        yield {"v": "str", "s": "a", "cls": "word"}
        if len(V["chain"]) > 1:
            for i in range(len(V["chain"])):
                yield {**V, "chain": V["chain"][:i] + V["chain"][i + 1:]}
        if V["target"]:
            yield {**V, "target": None}
    elif k in ("int", "float", "bool", "null"):
        yield {"v": "str", "s": "a", "cls": "word"}


def _shrink_nodes(nodes):
    for i in range(len(nodes)):
        yield nodes[:i] + nodes[i + 1:]
    for i, n in enumerate(nodes):
        rep = lambda m: nodes[:i] + [m] + nodes[i + 1:]  # noqa: E731
        if n["t"] in ("block", "section"):
            for ks in _shrink_nodes(n["kids"]):
                yield rep({**n, "kids": ks, "tail": n.get("tail", []) if ks else []})
            for k in n["kids"]:
                if k["t"] != "zone":
                    yield rep(k)
            if n.get("tail"):
                yield rep({**n, "tail": []})
            if n["t"] == "block" and n["target"]:
                yield rep({**n, "target": None})
            if n["t"] == "section" and n["ann"]:
                yield rep({**n, "ann": None})
        if n.get("lead"):
            yield rep({**n, "lead": n["lead"][1:]})
        if n.get("trail"):
            yield rep({**n, "trail": None})
        if n["t"] == "assign":
            for sv in _simpler_values(n["value"]):
                yield rep({**n, "value": sv, "trail": None if sv["v"] == "zone" else n.get("trail")})
        if n["t"] == "zone":
            for sv in _simpler_values(n["zone"]):
                if sv["v"] == "zone":
                    yield rep({**n, "zone": sv})


def shrink_candidates(doc):
    if doc.get("frontmatter"):
        yield {**doc, "frontmatter": None}
    if doc.get("sentinel"):
        yield {**doc, "sentinel": None}
    if doc.get("trailing"):
        yield {**doc, "trailing": doc["trailing"][1:]}
    m = doc["meta"]
    for i in range(len(m)):
        yield {**doc, "meta": m[:i] + m[i + 1:]}
    for i, (k, v) in enumerate(m):
        if "nested" in v:
            nn = v["nested"]
            for j in range(len(nn)):
                if len(nn) > 1:
                    yield {**doc, "meta": m[:i] + [[k, {"nested": nn[:j] + nn[j + 1:]}]] + m[i + 1:]}
            for j, (k2, v2) in enumerate(nn):
                for sv in _simpler_values(v2):
                    yield {**doc, "meta": m[:i] + [[k, {"nested": nn[:j] + [[k2, sv]] + nn[j + 1:]}]] + m[i + 1:]}
        else:
            for sv in _simpler_values(v):
                yield {**doc, "meta": m[:i] + [[k, sv]] + m[i + 1:]}
    if doc["sep"]:
        yield {**doc, "sep": False}
    for b in _shrink_nodes(doc["body"]):
        yield {**doc, "body": b}
