"""Configuration worker for C06: executes a list of calls and writes each call's serialised result.

usage: python -m vf.det_worker <calls.json> <out.json> <mode> <shuffle_seed>
  mode = plain | shuffled (first serve a seed-shuffled permutation of the same calls, discard, clean up, then record in order)
       | gather (all tool calls of the batch as tasks of one event loop)
       | coldthreads (the first eight calls of a fresh process made at once by eight threads released from one barrier)
       | threads (all calls, in a seed-shuffled order, from four OS threads sharing the tool instances; GIL switch interval 1 us)
The process configuration (PYTHONHASHSEED, cwd, LANG/LC_ALL) is set by the parent.
"""
import asyncio
import json
import os
import random
import re
import shutil
import sys

from vf.common import use_repo

use_repo()

MASK = re.compile(r'"timestamp": "[^"]*"')


def ser(x) -> str:
    try:
        return MASK.sub('"timestamp": "T"', json.dumps(x, ensure_ascii=False, sort_keys=False, default=lambda o: "<" + type(o).__name__ + ">"))
    except Exception as e:  # noqa: BLE001
        return "unserialisable:" + repr(e)


async def tool_call(call):
    from octave_mcp.mcp.compile_grammar import CompileGrammarTool
    from octave_mcp.mcp.eject import EjectTool
    from octave_mcp.mcp.validate import ValidateTool
    from octave_mcp.mcp.write import WriteTool

    t = {"validate": ValidateTool, "write": WriteTool, "eject": EjectTool, "compile": CompileGrammarTool}[call["tool"]]
    tool = TOOLS.setdefault(call["tool"], t())  # one long-lived instance per tool, as the server holds
    return await tool.execute(**call["args"])


TOOLS: dict = {}
SCHEMAS: dict = {}


def direct_call(call):
    from octave_mcp import emit, parse
    from octave_mcp.core.parser import parse_with_warnings

    k = call["direct"]
    text = call["text"]
    if k == "emit":
        d, w = parse_with_warnings(text)
        return {"canonical": emit(d), "warnings": w}
    if k == "seal":
        from octave_mcp.core.sealer import seal_document

        return {"sealed": emit(seal_document(parse(text)))}
    if k == "hash":
        from octave_mcp.core.file_ops import compute_hash

        return {"hash": compute_hash(emit(parse(text)))}
    if k == "validator":
        from octave_mcp.core.validator import Validator
        from octave_mcp.schemas.loader import get_builtin_schema, load_schema_by_name

        # loaded once per process and reused, as an embedding application holds its schema objects
        if call["schema"] not in SCHEMAS:
            SCHEMAS[call["schema"]] = load_schema_by_name(call["schema"])
        sd = SCHEMAS[call["schema"]]
        v = Validator(schema=get_builtin_schema(call["schema"]))
        errs = v.validate(parse(text), strict=call.get("strict", False), section_schemas={sd.name: sd} if sd is not None and sd.fields else None)
        return {"errors": [[e.code, e.field_path, e.message] for e in errs], "routing": v.routing_log.to_dict()}
    if k == "gbnf":
        from octave_mcp.core.gbnf_compiler import GBNFCompiler
        from octave_mcp.core.schema_extractor import extract_schema_from_document

        comp = TOOLS.setdefault("gbnf", GBNFCompiler())  # reused instance
        return {"grammar": comp.compile_schema(extract_schema_from_document(parse(text)), include_envelope=True)}
    raise ValueError(k)


def run_one(call):
    try:
        if "tool" in call:
            return ser(asyncio.run(tool_call(call)))
        return ser(direct_call(call))
    except BaseException as e:  # noqa: BLE001
        return "raised:" + type(e).__name__ + ":" + str(e)[:300]


def clean():
    shutil.rmtree("w", ignore_errors=True)


def main():
    calls = json.load(open(sys.argv[1], encoding="utf-8"))
    out_path, mode, sseed = sys.argv[2], sys.argv[3], int(sys.argv[4])
    if mode == "shuffled":
        order = list(range(len(calls)))
        random.Random(sseed).shuffle(order)
        for i in order:
            run_one(calls[i])
        clean()
    results = []
    if mode == "gather":
        async def all_tools():
            idx = [i for i, c in enumerate(calls) if "tool" in c]
            rs = await asyncio.gather(*[tool_call(calls[i]) for i in idx], return_exceptions=True)
            return dict(zip(idx, rs))

        got = asyncio.run(all_tools())
        for i, c in enumerate(calls):
            if i in got:
                r = got[i]
                results.append("raised:" + type(r).__name__ + ":" + str(r)[:300] if isinstance(r, BaseException) else ser(r))
            else:
                results.append(run_one(c))
    elif mode == "coldthreads":
        # cold start under contention: modules are imported (no import lock in the way), nothing has been tokenised, parsed
        # or validated yet in this process, and eight threads released by one barrier make the very first calls at once;
        # the remaining calls follow in order
        import threading

        import octave_mcp.core.emitter  # noqa: F401
        import octave_mcp.core.parser  # noqa: F401
        import octave_mcp.core.validator  # noqa: F401
        import octave_mcp.mcp.compile_grammar  # noqa: F401
        import octave_mcp.mcp.eject  # noqa: F401
        import octave_mcp.mcp.validate  # noqa: F401
        import octave_mcp.mcp.write  # noqa: F401

        sys.setswitchinterval(1e-6)
        first = [i for i, c in enumerate(calls) if not (c.get("args", {}).get("target_path") or c.get("args", {}).get("file_path"))][:8]
        rnd = random.Random(sseed)
        rnd.shuffle(first)
        got = {}
        barrier = threading.Barrier(len(first))

        def cold(i):
            barrier.wait()
            got[i] = run_one(calls[i])

        ths = [threading.Thread(target=cold, args=(i,)) for i in first]
        for t in ths:
            t.start()
        for t in ths:
            t.join()
        results = [got[i] if i in got else run_one(c) for i, c in enumerate(calls)]
    elif mode == "threads":
        # every call from one of four OS threads sharing the tool instances, with a very short GIL switch interval
        from concurrent.futures import ThreadPoolExecutor

        sys.setswitchinterval(1e-6)
        # calls on one target path form a history (create, preview, edit): they stay in order, in one thread
        jobs: dict = {}
        for i, c in enumerate(calls):
            tp = (c.get("args", {}).get("target_path") or c.get("args", {}).get("file_path")) if "tool" in c else None
            jobs.setdefault(("path", tp) if tp else ("call", i), []).append(i)
        order = list(jobs.values())
        random.Random(sseed).shuffle(order)
        got = {}

        def job(idxs):
            return [(i, run_one(calls[i])) for i in idxs]

        with ThreadPoolExecutor(4) as ex:
            for pairs in ex.map(job, order):
                got.update(pairs)
        results = [got[i] for i in range(len(calls))]
    else:
        for c in calls:
            results.append(run_one(c))
    with open(out_path, "w", encoding="utf-8") as fh:
        json.dump(results, fh, ensure_ascii=False)


if __name__ == "__main__":
    main()
