"""Renderers for model documents (DESIGN.md §2.2).

render_canonical(doc)        conservative spelling written from the core spec (2-space indent, Unicode operators,
                             everything that is not a plain word quoted, one-line lists).
render_lenient(doc, seed)    the same walk with an independent choice at every rewrite site, each a documented
                             freedom; returns (text, info) where info lists the injected rewrites (C07 ground truth),
                             the kinds used, and protected alias occurrences inside strings/comments/zones.

Neither rendering is ever compared with the emitter's output; they are *inputs* whose content is known.
"""

from __future__ import annotations

import random
import re
import unicodedata

from vf.model import OPS, PLAIN, RESERVED, zone_lines

ALIAS = {"→": "->", "⊕": "+", "⧺": "~", "⇌": "vs", "∧": "&", "∨": "|", "§": "#"}
WRONG_CASE = {"True", "TRUE", "False", "FALSE", "Null", "NULL"}


_W = r"[A-Za-z_][A-Za-z0-9_]*"
CLASS_SHAPE = {
    "dotted": re.compile(r"^%s(?:[./_-]%s|\.x/%s)+\Z" % (_W, _W, _W)),
    "version": re.compile(r"^\d+\.\d+(?:\.\d+)?(?:[-+][A-Za-z0-9.]+)?\Z"),
    "variable": re.compile(r"^\$[A-Za-z0-9_]+(?::[A-Za-z_]\w*)?\Z"),
    "expr": re.compile(r"^%s(?:[%s]%s)+\Z" % (_W, OPS, _W)),
    "expr_pct": re.compile(r"^(?:%s|\d+(?:\.\d+)?%%(?:%s)?)(?:[%s](?:%s|\d+(?:\.\d+)?%%(?:%s)?))+\Z" % (_W, _W, OPS, _W, _W)),
    "percent": re.compile(r"^-?\d+(?:\.\d+)?(?:[eE][+-]?\d+)?%(?:[A-Za-z_]\w*)?\Z"),
    "annotation_u": re.compile(r"^[^\W\d]\w*<[^\W\d]\w*>\Z"),
    "multiword_litfirst": re.compile(r'^(?:"[^"\\\n\t]*"|true|false|null|\d+\.\d+\.\d+)(?: (?!(?:true|false|null|vs)\b)%s)+\Z' % _W),
    "multiword_mixed": re.compile(
        r'^(?!(?:true|false|null|vs)\b)' + _W + r'(?: (?:(?!vs\b)' + _W + r'|42|3\.14|1\.2\.3|"[^"\\\n\t]*"))+\Z'),
}


NUMBER_LEXEME = re.compile(r"^-?\d+\.?\d*(?:[eE][+-]?\d+)?\Z")


def esc(s: str) -> str:
    return s.replace("\\", "\\\\").replace('"', '\\"').replace("\n", "\\n").replace("\t", "\\t")


def q(s: str) -> str:
    return '"' + esc(s) + '"'


def is_plain_word(s: str) -> bool:
    return bool(PLAIN.match(s)) and s not in RESERVED and s not in WRONG_CASE and "vs" not in s.lower()


# ================================================================================================ canonical
def c_atom(V) -> str:
    k = V["v"]
    if k == "str":
        return V["s"] if is_plain_word(V["s"]) else q(V["s"])
    if k == "int":
        return V["i"]
    if k == "float":
        return V["f"]
    if k == "bool":
        return "true" if V["b"] else "false"
    if k == "null":
        return "null"
    raise ValueError(k)


def c_value(V) -> str:
    k = V["v"]
    if k == "list":
        return "[" + ",".join(c_item(i) for i in V["items"]) + "]"
    if k == "holo":
        return c_holo(V)
    return c_atom(V)


def c_item(I) -> str:
    if I["v"] == "pair":
        return f"{I['key']}::{c_atom(I['value'])}"
    return c_value(I)


def c_holo(V) -> str:
    ex = V["example"]
    ex_s = q(ex["s"]) if ex["v"] == "str" else c_atom(ex)
    s = "[" + ex_s + "".join("∧" + c for c in V["chain"])
    if V["target"]:
        s += "→§" + V["target"]
    return s + "]"


def _c_zone(Z, pad: str, out: list):
    out.append(pad + Z["fence"] + (Z["tag"] or ""))
    out.extend(zone_lines(Z))
    out.append(pad + Z["fence"])


def _c_nodes(nodes, ind: int, out: list):
    pad = "  " * ind
    for n in nodes:
        for c in n.get("lead", []):
            out.append(f"{pad}// {c}")
        t = n["t"]
        if t == "assign":
            V = n["value"]
            if V["v"] == "zone":
                out.append(f"{pad}{n['key']}::")
                _c_zone(V, pad, out)
            else:
                out.append(f"{pad}{n['key']}::{c_value(V)}" + (f" // {n['trail']}" if n.get("trail") else ""))
        elif t == "zone":
            _c_zone(n["zone"], pad, out)
        elif t == "block":
            out.append(f"{pad}{n['key']}" + (f"[→§{n['target']}]" if n["target"] else "") + ":")
            _c_nodes(n["kids"], ind + 1, out)
            for c in n.get("tail", []):
                out.append(f"{pad}  // {c}")
        elif t == "section":
            out.append(f"{pad}§{n['id']}::{n['name']}" + (f"[{n['ann']}]" if n["ann"] else ""))
            _c_nodes(n["kids"], ind + 1, out)
            for c in n.get("tail", []):
                out.append(f"{pad}  // {c}")


def render_canonical(doc) -> str:
    out: list[str] = []
    if doc.get("frontmatter") is not None:
        out += ["---", doc["frontmatter"], "---", ""]
    if doc.get("sentinel"):
        out.append(f"OCTAVE::{doc['sentinel']}")
    out.append(f"==={doc['name']}===")
    if doc["meta"]:
        out.append("META:")
        for k, v in doc["meta"]:
            if "nested" in v:
                out.append(f"  {k}:")
                for k2, v2 in v["nested"]:
                    out.append(f"    {k2}::{c_value(v2)}")
            elif v["v"] == "zone":
                out.append(f"  {k}::")
                _c_zone(v, "  ", out)
            else:
                out.append(f"  {k}::{c_value(v)}")
    if doc["sep"]:
        out.append("---")
    _c_nodes(doc["body"], 0, out)
    for c in doc.get("trailing", []):
        out.append(f"// {c}")
    out.append("===END===")
    return "\n".join(out) + "\n"


# ================================================================================================ lenient
class Out:
    """Text accumulator that knows the (line, column) the reader will report for the next character.

    Columns are counted on the NFC form of the current line, as the reader normalises each line first.
    """

    def __init__(self):
        self.parts: list[str] = []
        self.line = 1
        self.cur = ""

    def w(self, s: str):
        self.parts.append(s)
        if "\n" in s:
            self.line += s.count("\n")
            self.cur = s[s.rfind("\n") + 1:]
        else:
            self.cur += s

    def pos(self):
        return self.line, len(unicodedata.normalize("NFC", self.cur)) + 1

    def text(self) -> str:
        return "".join(self.parts)


class Lenient:
    """One lenient rendering. `level` in [0,1] scales how often a non-canonical choice is taken."""

    def __init__(self, seed: int, level: float = 0.6, curly: bool = False, kinds: set | None = None):
        self.r = random.Random(seed)
        self.seed = seed
        self.level = level
        self.curly = curly  # NAME{q} spelling: only the lenient tokenizer / octave_write(lenient=true) accepts it
        self.allowed = kinds  # None = all kinds
        self.o = Out()
        self.rewrites: list[dict] = []  # receipts the reader is expected to issue
        self.used: dict[str, int] = {}  # every freedom used (kind -> count), receipts or not
        self.protected = 0  # alias characters inside strings/comments/zones (must not be rewritten)
        self.advisory = 0  # documented advisories the spelling triggers (pattern_autoquote etc.), not asserted

    # ---- choices
    def take(self, kind: str, p: float | None = None) -> bool:
        if (self.allowed is not None and kind not in self.allowed) or kind in getattr(self, "denied", ()):
            return False
        ok = self.r.random() < (self.level if p is None else p)
        if ok:
            self.used[kind] = self.used.get(kind, 0) + 1
        return ok

    def op(self, ch: str, spaced_ok: bool = True):
        """Write one operator, maybe as its ASCII alias, maybe spaced."""
        o = self.o
        alias = ALIAS.get(ch)
        use_alias = alias is not None and self.take("alias")
        form = alias if use_alias else ch
        if ch == "⇌" and use_alias:
            form = self.r.choice(["vs", "<->"])
        spaced = form == "vs" or (spaced_ok and self.take("op_spaces", 0.3 * self.level))
        if spaced:
            o.w(" ")
        if use_alias:
            line, col = o.pos()
            self.rewrites.append({"type": "normalization", "original": form, "normalized": ch, "line": line, "column": col})
        o.w(form)
        if spaced:
            o.w(" ")

    def count_protected(self, s: str):
        self.protected += len(re.findall(r"->|<->|\+|~|\bvs\b|\||&|#", s))

    # ---- atoms
    def quoted(self, s: str):
        o = self.o
        self.count_protected(s)
        if self.take("triple_quotes", 0.25 * self.level):
            line, col = o.pos()
            self.rewrites.append({"type": "normalization", "original": '"""', "normalized": s, "line": line, "column": col})
            body = esc(s)
            if self.take("triple_raw_newline_or_quote", 0.6):
                # GH#63: a triple-quoted string may hold raw newlines and single quote characters
                out = []
                for i, ch in enumerate(s):
                    nxt = s[i + 1:]
                    if ch == "\n" and not re.match(r" *```", nxt) and self.r.random() < 0.7:
                        out.append("\n")
                    elif ch == '"' and nxt and not nxt.startswith('"') and self.r.random() < 0.7:
                        out.append('"')
                    else:
                        out.append(esc(ch))
                body = "".join(out)
            o.w('"""' + body + '"""')
        else:
            o.w(q(s))

    def str_atom(self, V, in_single_item_list: bool, key: str | None):
        s, cls, o = V["s"], V.get("cls", "hostile"), self.o
        if cls in CLASS_SHAPE and not CLASS_SHAPE[cls].match(s):
            cls = "hostile"  # (e.g. after shrinking) the text no longer has its class's shape: always quoted
        autoquote_key = key in ("PATTERN", "REGEX")

        def bare_ok():
            ok = self.take("bare_" + cls, 0.7)
            if ok and autoquote_key:
                self.advisory += 1
            return ok

        if cls == "word" and is_plain_word(s):
            if self.take("quoted_plain_word", 0.35 * self.level) :
                return self.quoted(s)
            if autoquote_key:
                self.advisory += 1
            return o.w(s)
        if cls in ("dotted", "version", "variable") and bare_ok():
            return o.w(s)
        if cls == "secref" and re.match(r"^§[A-Za-z0-9_]+\Z", s) and bare_ok():
            self.op("§", spaced_ok=False)
            return o.w(s[1:])
        if cls in ("expr", "expr_pct") and not (in_single_item_list and "∧" in s) and bare_ok():
            for t_i, tok in enumerate(re.split("([" + OPS + "])", s)):
                if tok and tok in OPS:
                    self.op(tok)
                elif t_i > 0 and "∧" not in s and is_plain_word(tok) and self.take("quoted_operand", 0.25 * self.level):
                    self.quoted(tok)  # optional quotes around a plain word apply to an operand (not the first) too
                else:
                    o.w(tok)
            return
        if cls == "annotation" and re.match(r"^[A-Za-z_]\w*<[A-Za-z_]\w*>\Z", s) and bare_ok():
            if self.curly and self.take("curly_annotation", 0.5):
                line, col = o.pos()
                name, qual = s[:-1].split("<")
                self.rewrites.append({"type": "repair_candidate", "original": f"{name}{{{qual}}}", "repaired": s,
                                      "line": line, "column": col})
                return o.w(f"{name}{{{qual}}}")
            return o.w(s)
        if cls == "percent" and bare_ok():
            return o.w(s)
        if cls == "annotation_u" and self.curly and bare_ok() and self.take("curly_annotation_nonascii", 0.5):
            line, col = o.pos()
            name, qual = s[:-1].split("<")
            self.rewrites.append({"type": "repair_candidate", "original": f"{name}{{{qual}}}", "repaired": s, "line": line, "column": col})
            self.may_be_refused = True
            return o.w(f"{name}{{{qual}}}")
        if cls == "constructor" and re.match(r"^[A-Za-z_]\w*<[\w,]*>\Z", s) and bare_ok():
            name, args = s[:-1].split("<")
            if self.take("constructor_brackets", 0.7):
                return o.w(f"{name}[{args}]")
            return o.w(s)
        if cls == "multiword_litfirst" and bare_ok():
            line, col = o.pos()
            toks = re.findall(r'"[^"]*"|\S+', s)
            first = toks[0]
            self.rewrites.append({"type": "lenient_parse", "subtype": "multi_word_coalesce", "original": toks, "result": s, "line": line, "column": col})
            if first.startswith('"'):
                self.count_protected(first)
                if len(first) > 2 and self.take("triple_quotes", 0.3 * self.level):
                    self.rewrites.append({"type": "normalization", "original": '"""', "normalized": first[1:-1], "line": line, "column": col})
                    return o.w('"""' + first[1:-1] + '"""' + s[len(first):])
            return o.w(s)
        if cls == "multiword_mixed" and bare_ok():
            # words, numbers, versions, literals and quoted words in one bare value (#140/#141): coalesced into the
            # source tokens joined by one space, quotes kept
            line, col = o.pos()
            toks = re.findall(r'"[^"]*"|\S+', s)
            self.rewrites.append({"type": "lenient_parse", "subtype": "multi_word_coalesce", "original": toks,
                                  "result": s, "line": line, "column": col})
            for t in toks:
                if t.startswith('"'):
                    self.count_protected(t)
            return o.w(s)
        if cls == "multiword" and all(is_plain_word(w) for w in s.split(" ")) and " " in s and bare_ok():
            line, col = o.pos()
            words = s.split(" ")
            self.rewrites.append({"type": "lenient_parse", "subtype": "multi_word_coalesce", "original": words,
                                  "result": s, "line": line, "column": col})
            return o.w(s)
        return self.quoted(s)

    def float_spelling(self, V) -> str:
        """A float may be written in any NUMBER lexeme of the spec (42|3.14|-1e10) that denotes the same value."""
        f = float(V["f"])
        base = V["f"]
        cands = {base.replace("e+", "e"), base.replace("e", "E"), base.replace("e+", "E"), "%.17e" % f, "%.1f" % f if abs(f) < 1e22 else base,
                 ("%.17e" % f).replace("e+", "e")}
        cands = sorted(c for c in cands if c != base and NUMBER_LEXEME.match(c) and ("." in c or "e" in c or "E" in c)
                       and float(c) == f and (repr(float(c))[0] == "-") == (base[0] == "-"))
        if cands and self.take("number_spelling", 0.5):
            return self.r.choice(cands)
        return base

    def atom(self, V, single=False, key=None):
        k = V["v"]
        if k == "str":
            return self.str_atom(V, single, key)
        if k == "float":
            return self.o.w(self.float_spelling(V))
        self.o.w({"int": lambda: V["i"], "float": lambda: V["f"], "bool": lambda: "true" if V["b"] else "false",
                  "null": lambda: "null"}[k]())

    def holo(self, V):
        o = self.o
        o.w("[")
        wrapped = self.take("holo_multiline", 0.3 * self.level)  # one-line versus multi-line applies to this bracket too
        if wrapped:
            o.w("\n" + " " * self.r.choice([1, 2, 4, 6]))
        ex = V["example"]
        if ex["v"] == "str":
            self.count_protected(ex["s"])
            o.w(q(ex["s"]))
        else:
            self.atom(ex)
        for c in V["chain"]:
            self.op("∧", spaced_ok=False)
            self.count_protected(c) if '"' in c else None
            o.w(c)
        if V["target"]:
            self.op("→", spaced_ok=False)
            self.op("§", spaced_ok=False)
            o.w(V["target"])
        if wrapped:
            o.w("\n" + " " * self.r.choice([0, 2, 4]))
        o.w("]")

    def value(self, V, ind: int, key=None, single=False):
        k = V["v"]
        o = self.o
        if k == "holo":
            return self.holo(V)
        if k != "list":
            return self.atom(V, single, key)
        items = V["items"]
        if not items:
            return o.w("[ ]" if self.take("list_space", 0.2 * self.level) else "[]")
        one = len(items) == 1
        if self.take("list_multiline", 0.4 * self.level):
            pad = " " * self.r.choice([0, 1, ind + 2, ind + 5])
            o.w("[\n")
            for n, it in enumerate(items):
                o.w(pad)
                self.item(it, ind, one)
                o.w(",\n" if n < len(items) - 1 else "\n")
            o.w(" " * self.r.choice([0, ind]) + "]")
        else:
            sep = "," if not self.take("list_comma_space", 0.5 * self.level) else self.r.choice([", ", " , ", ",  "])
            o.w("[")
            for n, it in enumerate(items):
                self.item(it, ind, one)
                if n < len(items) - 1:
                    o.w(sep)
            o.w("]")

    def item(self, I, ind: int, single: bool):
        if I["v"] == "pair":
            self.o.w(I["key"])
            self.assign_op()
            return self.atom(I["value"], False, I["key"])
        self.value(I, ind, None, single)

    def assign_op(self):
        if self.take("assign_spaces", 0.3 * self.level):
            self.o.w(self.r.choice([" :: ", ":: ", " ::"]))
        else:
            self.o.w("::")

    def eol(self):
        o = self.o
        if self.take("trailing_spaces", 0.2 * self.level):
            o.w(" " * self.r.choice([1, 2]))
        o.w("\n")
        if self.take("blank_lines", 0.25 * self.level):
            for _ in range(self.r.choice([1, 1, 2])):
                o.w(self.r.choice(["", "", "  "]) + "\n")

    def comment(self, pad: str, c: str):
        self.count_protected(c)
        self.o.w(pad + ("//" if (c and self.take("comment_nospace", 0.3 * self.level)) else "// ") + c)
        # comment lines never get trailing spaces appended here (text is stripped by the reader anyway)
        self.o.w("\n")

    def zone(self, Z, pad: str):
        o = self.o
        self.count_protected(Z["content"])
        o.w(pad + Z["fence"] + (Z["tag"] or "") + "\n")
        for ln in zone_lines(Z):
            o.w(ln + "\n")
        o.w(pad + Z["fence"] + "\n")

    def width(self) -> int:
        return self.r.choice([1, 3, 4, 8]) if self.take("indent_width") else 2

    def nodes(self, nodes, ind: int):
        o = self.o
        pad = " " * ind
        for n_i, n in enumerate(nodes):
            for c in n.get("lead", []):
                self.comment(pad, c)
            t = n["t"]
            if t == "assign":
                V = n["value"]
                o.w(pad + n["key"])
                if V["v"] == "zone":
                    o.w("::\n")
                    self.zone(V, pad)
                    continue
                self.assign_op()
                self.value(V, ind, n["key"])
                if n.get("trail"):
                    self.count_protected(n["trail"])
                    o.w(" " * self.r.choice([1, 1, 2]) + "// " + n["trail"] + "\n")
                else:
                    self.eol()
            elif t == "zone":
                self.zone(n["zone"], pad)
            elif t == "block":
                o.w(pad + n["key"])
                if n["target"]:
                    o.w("[")
                    self.op("→", spaced_ok=False)
                    self.op("§", spaced_ok=False)
                    o.w(n["target"] + "]")
                o.w(":")
                kids = n["kids"]
                # a comment line right after such a block is read as following the block, written at the block's indent,
                # and taken INTO the block when that canonical text is read again (known finding C01:comment-after-zone-only-
                # block): excluded by construction (a following sibling without lead comments) in 7 of 8 spellings
                nxt = nodes[n_i + 1] if n_i + 1 < len(nodes) else None
                safe = (nxt is not None and not nxt.get("lead")) or self.seed % 8 == 7
                if (len(kids) == 1 and kids[0]["t"] == "zone" and not kids[0].get("lead") and not n.get("tail") and safe
                        and self.take("zone_fence_at_key_column", 0.5 * self.level)):
                    # GH#259 spelling: a block whose only child is a key-less literal zone may have the fences in the
                    # key's own column (or further left); what follows at the block's level stays a sibling
                    o.w("\n")
                    self.zone(kids[0]["zone"], " " * self.r.choice([ind, ind, 0]))
                    continue
                self.eol()
                w = self.width()
                self.nodes(n["kids"], ind + w)
                for c in n.get("tail", []):
                    self.comment(" " * (ind + w), c)
            elif t == "section":
                o.w(pad)
                self.op("§", spaced_ok=False)
                o.w(n["id"] + "::")
                if not (n["name"] == n["id"] and not n["ann"] and self.take("section_name_omitted", 0.5)):
                    o.w(n["name"])
                if n["ann"]:
                    o.w("[" + n["ann"] + "]")
                self.eol()
                w = self.width()
                self.nodes(n["kids"], ind + w)
                for c in n.get("tail", []):
                    self.comment(" " * (ind + w), c)

    def doc(self, d) -> str:
        o = self.o
        if d.get("frontmatter") is not None:
            o.w("---\n" + d["frontmatter"] + "\n---\n")
            if not self.take("frontmatter_no_blank", 0.3 * self.level):
                o.w("\n")
        if d.get("sentinel"):
            o.w(f"OCTAVE::{d['sentinel']}\n")
        o.w(f"==={d['name']}===")
        self.eol()
        if d["meta"]:
            o.w("META:")
            self.eol()
            w = self.width()
            for k, v in d["meta"]:
                if "nested" in v:
                    o.w(" " * w + k + ":")
                    self.eol()
                    w2 = w + self.width()
                    for k2, v2 in v["nested"]:
                        o.w(" " * w2 + k2)
                        self.assign_op()
                        self.value(v2, w2, k2)
                        self.eol()
                elif v["v"] == "zone":
                    o.w(" " * w + k + "::\n")
                    self.zone(v, " " * w)
                else:
                    o.w(" " * w + k)
                    self.assign_op()
                    self.value(v, w, k)
                    self.eol()
        if d["sep"]:
            o.w("---")
            self.eol()
        self.nodes(d["body"], 0)
        for c in d.get("trailing", []):
            self.comment("", c)
        if not self.take("end_omitted", 0.3 * self.level):
            o.w("===END===")
            o.w(self.r.choice(["\n", "\n", "", "\n\n"]))
        return o.text()


def render_lenient(doc, seed: int, level: float = 0.6, curly: bool = False, kinds: set | None = None, deny: set | None = None):
    L = Lenient(seed, level, curly, kinds)
    L.denied = set(deny or ())
    text = L.doc(doc)
    return text, {"rewrites": L.rewrites, "used": L.used, "protected": L.protected, "advisory": L.advisory,
                  "may_be_refused": getattr(L, "may_be_refused", False)}
