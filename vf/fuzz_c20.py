#!/venv/bin/python
"""atheris entry for C20 (coverage-guided; thorough tier).  usage: fuzz_c20.py <corpus_dir> [libFuzzer flags]

The oracle is inside the target: the four reader entry points may only raise LexerError / ParserError. A foreign exception
is appended to $VERIF_FUZZ_FINDINGS (JSON lines, de-duplicated by bucket) and the campaign goes on — a shallow defect must
not end the search. Inputs inside known-finding classes are recognised by their signature and not recorded again.
"""
import json
import os
import sys

sys.path.insert(0, os.environ.get("VERIF_REPO_SRC", "/repo/src"))

import atheris  # noqa: E402

with atheris.instrument_imports(include=["octave_mcp"]):
    import octave_mcp.core.lexer  # noqa: F401,E402
    import octave_mcp.core.parser  # noqa: F401,E402

from vf.props import c20  # noqa: E402

SEEN = set()
OUT = os.environ.get("VERIF_FUZZ_FINDINGS", "/dev/null")


def TestOneInput(data: bytes):
    text = data.decode("utf-8", "ignore")
    bad, _, _ = c20.read_all(text)
    for entry, bk, msg in bad:
        sig = c20.classify(entry, bk, text)
        if sig.startswith("C20:unlisted") and sig not in SEEN:
            SEEN.add(sig)
            with open(OUT, "a", encoding="utf-8") as fh:
                fh.write(json.dumps({"sig": sig, "text": text}) + "\n")


if __name__ == "__main__":
    atheris.Setup(sys.argv, TestOneInput)
    atheris.Fuzz()
