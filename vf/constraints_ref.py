"""Reference semantics of OCTAVE constraints (C08, C11, C13), written from the module docstring of
core/constraints.py, octave-schema-spec and the property statement — never from the implementation's code paths.

ref_member(member_text, value) -> True | False | None
    None means "the documentation does not fix the answer" (outside the asserted domain, only subject to the
    implementation-relative chain laws).
declared_conflict(members) -> bool      REQ with OPT, two different CONSTs, a CONST outside an ENUM.
"""

from __future__ import annotations

import datetime
import math
import re

# ---------------------------------------------------------------------------------------------- pools
# REGEX pool: every pattern is anchored at both ends and paired with a hand-written predicate (no regex inside).
def _all(pred):
    return lambda s: len(s) > 0 and all(pred(c) for c in s)


REGEX_POOL = {
    "^[a-z]+$": _all(lambda c: "a" <= c <= "z"),
    "^[A-Z][a-z]*$": lambda s: len(s) >= 1 and "A" <= s[0] <= "Z" and all("a" <= c <= "z" for c in s[1:]),
    "^[0-9]{3}$": lambda s: len(s) == 3 and all(c in "0123456789" for c in s),
    "^(foo|bar)$": lambda s: s in ("foo", "bar"),
    "^a.c$": lambda s: len(s) == 3 and s[0] == "a" and s[2] == "c" and s[1] != "\n",
    "^x{2,3}$": lambda s: s in ("xx", "xxx"),
    "^[A-Z_]+$": _all(lambda c: ("A" <= c <= "Z") or c == "_"),
    "^v[0-9]+\\.[0-9]+$": lambda s: (len(s) >= 4 and s[0] == "v" and s.count(".") == 1 and all(p and all(c in "0123456789" for c in p)
                                                                                         for p in s[1:].split("."))),
    "^user_\\d+$": lambda s: s.startswith("user_") and len(s) > 5 and all(c.isdecimal() for c in s[5:]),
    "^$": lambda s: s == "",
    "^[^ ]+$": _all(lambda c: c != " "),
    "^ab?c$": lambda s: s in ("ac", "abc"),
    "^(a|b)(c|d)$": lambda s: len(s) == 2 and s[0] in "ab" and s[1] in "cd",
}

ENUM_POOL = [
    ["ACTIVE", "ACTIVATING", "DRAFT"], ["A", "B"], ["DRAFT", "ACTIVE", "DEPRECATED"], ["a", "A"], ["1", "2", "10"],
    ["PASS", "PASS_WITH_NOTES", "FAIL"], ["ACTIVE", "INACTIVE"], ["X"], ["foo", "bar", "baz"],
]
CONST_POOL = ["ACTIVE", "ACT", "X", "A", '"5"', "5", "3.5", "true", "foo", "10", "PASS", '"a b"']
RANGE_POOL = [("1", "10"), ("0", "0"), ("-5", "5"), ("0.5", "2.5"), ("1", "1e3"), ("-1.5", "-0.5")]
LEN_POOL = [0, 1, 2, 3]
TYPE_POOL = ["STRING", "NUMBER", "BOOLEAN", "LIST"]


def member_pool() -> list[str]:
    out = ["REQ", "OPT", "DATE", "ISO8601"]
    out += [f"CONST[{c}]" for c in CONST_POOL]
    out += ["ENUM[" + ",".join(e) + "]" for e in ENUM_POOL]
    out += [f"TYPE[{t}]" for t in TYPE_POOL]
    out += [f'REGEX["{p}"]' for p in REGEX_POOL]
    out += [f"RANGE[{a},{b}]" for a, b in RANGE_POOL]
    out += [f"MIN_LENGTH[{n}]" for n in LEN_POOL] + [f"MAX_LENGTH[{n}]" for n in LEN_POOL]
    return out


class Zone:
    """Stand-in marker for a literal-zone value in the value pool (turned into LiteralZoneValue by the harness)."""

    def __init__(self, tag):
        self.tag = tag

    def __repr__(self):
        return f"Zone({self.tag!r})"


def value_pool() -> list:
    vals: list = [None, "", " ", "a", "abc", "ABC", "Abc", "A", "B", "AC", "ACT", "ACTIV", "ACTIVE", "ACTIVATING", "active", "DRAFT", "D",
                  "DEPRECATED", "X", "x", "xx", "xxx", "xxxx", "foo", "bar", "ba", "baz", "foobar", "ac", "abc ", "a c", "a\nc", "PASS",
                  "PASS_", "PASS_WITH_NOTES", "P", "F", "INACTIVE", "I", "1", "2", "10", "5", "3.5", "007", "123", "12", "1234", "v1.2",
                  "v1.", "A_B", "a b", "true", "nan", "inf", "-3", "1e2",
                  True, False, 0, 1, 2, 5, 10, 11, -5, -6, 1000, 1001, 3.5, 0.5, 0.49, 2.5, 2.51, -0.5, -1.5, -1.51, 0.0, 1e3, 1e3 + 0.5,
                  10.0, 10.000001, float("nan"), float("inf"),
                  [], ["a"], ["a", "b"], ["a", "b", "c"], ["a", "b", "c", "d"], [1, 2], {"k": "v"}, Zone(None), Zone("python"),
                  "2024-01-15", "2024-02-29", "2023-02-29", "2024-13-01", "2024-00-10", "2024-04-31", "2024-1-5", "24-01-15", "2024/01/15",
                  "2024-01-15 ", " 2024-01-15", "2024-01-15\n", "20240115", "2024-W03-3", "0000-01-01", "9999-12-31", "1900-02-29", "2000-02-29",
                  "٢٠٢٤-٠١-١٥",
                  "2024-01-15T10:30:00", "2024-01-15T10:30:00Z", "2024-01-15T10:30:00+02:00", "2024-01-15T10:30:00-05:30",
                  "2024-01-15T25:00:00", "2024-01-15T10:61:00", "2024-02-30T10:00:00", "2024-01-15T10:30", "2024-01-15 10:30:00",
                  "2024-01-15T10:30:00.123", "2024-01-15t10:30:00", "2024-01-15T10:30:00z", "2024-01-15T10:30:00+25:00", "not a date", "T10:30:00"]
    return vals


# ---------------------------------------------------------------------------------------------- atoms (spec: CONST/ENUM atoms)
def parse_atom(s: str):
    s = s.strip()
    if len(s) >= 2 and s[0] == '"' and s[-1] == '"':
        return s[1:-1]
    if s == "true":
        return True
    if s == "false":
        return False
    if s == "null":
        return None
    if re.fullmatch(r"-?\d+", s):
        return int(s)
    if re.fullmatch(r"-?\d+(\.\d+)?([eE][+-]?\d+)?", s):
        return float(s)
    return s


def kind(v) -> str:
    if isinstance(v, bool):
        return "bool"
    if isinstance(v, (int, float)):
        return "num"
    if isinstance(v, str):
        return "str"
    if isinstance(v, list):
        return "list"
    if v is None:
        return "null"
    return "other"


def split_member(m: str):
    if "[" in m:
        name, arg = m.split("[", 1)
        return name, arg[:-1]
    return m, None


# ---------------------------------------------------------------------------------------------- dates
def real_date(s: str):
    """True/False for ASCII YYYY-MM-DD shaped strings; None if the shape is not exactly that."""
    if len(s) != 10 or s[4] != "-" or s[7] != "-" or not all(c in "0123456789" for c in s[:4] + s[5:7] + s[8:]):
        return None
    y, m, d = int(s[:4]), int(s[5:7]), int(s[8:])
    if y == 0:
        return "year0"
    if not 1 <= m <= 12:
        return False
    leap = (y % 4 == 0 and y % 100 != 0) or y % 400 == 0
    dim = [31, 29 if leap else 28, 31, 30, 31, 30, 31, 31, 30, 31, 30, 31][m - 1]
    return 1 <= d <= dim


def ref_date(v):
    if not isinstance(v, str):
        return None
    r = real_date(v)
    if r == "year0":
        return None
    if r is None:
        return False  # not the YYYY-MM-DD shape (in ASCII digits): not a DATE
    return r


def ref_iso8601(v):
    """The four documented forms: YYYY-MM-DD, ...THH:MM:SS, ...Z, ...+HH:MM. Anything else that still looks like a
    date/time is undocumented (None); text that is no date at all is False."""
    if not isinstance(v, str):
        return None
    d = real_date(v[:10]) if len(v) >= 10 else None
    if d == "year0":
        return None
    if len(v) == 10:
        return d if d is not None else (False if not any(c.isdigit() for c in v) else None if re.fullmatch(r"[\d\-/W: ]+", v) else False)
    if d is None:
        return False if not re.search(r"\d", v) else None
    rest = v[10:]
    m = re.fullmatch(r"T(\d\d):(\d\d):(\d\d)(Z|[+-](\d\d):(\d\d))?", rest)
    if m is None:
        return None  # undocumented form (fractions, lower-case t/z, space separator, missing seconds ...)
    hh, mm, ss = int(m.group(1)), int(m.group(2)), int(m.group(3))
    ok = d is True and hh <= 23 and mm <= 59 and ss <= 59
    if m.group(4) and m.group(4) != "Z":
        oh, om = int(m.group(5)), int(m.group(6))
        if oh > 23 or om > 59:
            return False if not ok else None  # offset range is not documented
    return ok


# ---------------------------------------------------------------------------------------------- members
def ref_member(member: str, v):
    name, arg = split_member(member)
    if isinstance(v, Zone):
        if name in ("TYPE", "MIN_LENGTH", "MAX_LENGTH"):
            return False
        if name == "OPT":
            return True
        return None
    if name == "REQ":
        if v is None or v == "":
            return False
        if isinstance(v, (list, dict)) and len(v) == 0:
            return None  # "non-empty" for an empty list is not settled by the documentation
        return True
    if name == "OPT":
        return True
    if name == "CONST":
        c = parse_atom(arg)
        if kind(c) != kind(v) or kind(v) in ("other", "list"):
            return None
        if isinstance(v, float) and math.isnan(v):
            return None
        return c == v
    if name == "ENUM":
        if not isinstance(v, str):
            return None
        members = [a.strip() for a in arg.split(",")]
        if v in members:
            return True
        hits = [m for m in members if m.startswith(v)]
        return len(hits) == 1
    if name == "TYPE":
        if arg == "STRING":
            return isinstance(v, str)
        if arg == "NUMBER":
            return isinstance(v, (int, float)) and not isinstance(v, bool)
        if arg == "BOOLEAN":
            return isinstance(v, bool)
        if arg == "LIST":
            return isinstance(v, list)
        return None
    if name == "REGEX":
        if not isinstance(v, str) or v.endswith("\n"):
            return None  # `$` before a trailing newline: a regex-dialect detail the documentation does not fix
        pat = arg[1:-1] if arg.startswith('"') else arg
        pred = REGEX_POOL.get(pat)
        return None if pred is None else bool(pred(v))
    if name == "RANGE":
        lo, hi = (parse_atom(x) for x in arg.split(",", 1))
        if isinstance(v, bool):
            return False
        if isinstance(v, (int, float)):
            if isinstance(v, float) and math.isnan(v):
                return None
            return lo <= v <= hi
        if isinstance(v, str):
            try:
                float(v)
                return None  # numeric text under RANGE: not settled
            except ValueError:
                return False
        if v is None:
            return None
        return False
    if name in ("MIN_LENGTH", "MAX_LENGTH"):
        n = int(arg)
        if isinstance(v, (str, list)):
            return len(v) >= n if name == "MIN_LENGTH" else len(v) <= n
        return False
    if name == "DATE":
        return ref_date(v)
    if name == "ISO8601":
        return ref_iso8601(v)
    return None


def declared_conflict(members: list[str]) -> bool:
    names = [split_member(m) for m in members]
    if any(n == "REQ" for n, _ in names) and any(n == "OPT" for n, _ in names):
        return True
    consts = [parse_atom(a) for n, a in names if n == "CONST"]
    for i in range(len(consts)):
        for j in range(i + 1, len(consts)):
            if (kind(consts[i]), consts[i]) != (kind(consts[j]), consts[j]):
                return True
    for n, a in names:
        if n == "ENUM":
            mem = [x.strip() for x in a.split(",")]
            for c in consts:
                cs = ("true" if c is True else "false" if c is False else str(c))
                if cs not in mem and str(c) not in mem:
                    return True
    return False


def ambiguous_const_pair(members: list[str]) -> bool:
    """Two CONSTs that are equal in Python but of different kind (1 / true / 1.0): 'different' is not settled."""
    consts = [parse_atom(a) for n, a in map(split_member, members) if n == "CONST"]
    for i in range(len(consts)):
        for j in range(i + 1, len(consts)):
            try:
                if consts[i] == consts[j] and (kind(consts[i]), type(consts[i])) != (kind(consts[j]), type(consts[j])):
                    return True
            except Exception:
                pass
    return False
