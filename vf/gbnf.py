"""Independent parser for llama.cpp's GBNF grammar syntax + bounded derivation enumerator (C12, C13).

Written from llama.cpp's grammar-parser (parse_space / parse_name / parse_char / parse_sequence / parse_alternates /
parse_rule): rule names are [a-zA-Z0-9-]+, `::=`, literals "..." with escapes \\x \\u \\U \\t \\r \\n \\\\ \\" \\[ \\], character
classes [...] with ranges and negation, groups ( ... ), repetition * + ? {m} {m,} {m,n}, `.` (any char), `#` comments,
newlines allowed only inside groups or right after `|`.

check(text) -> (Grammar, problems) where problems is a list of (class, rule, message):
    syntax classes    expecting-name, expecting-assign, bad-escape, unterminated-literal, unterminated-class,
                      unbalanced-paren, bad-repetition, dangling-repetition, expecting-newline
    semantic classes  no-root, undefined-ref, dup-rule, empty-alt, rule-name-charset
Unlike llama.cpp the parser RECOVERS: after a syntax error it resumes at the next line that starts a rule, and it accepts
`_` inside names while reporting rule-name-charset, so that one known malformation does not hide the others.
"""

from __future__ import annotations

import itertools
import re

WORD = set("abcdefghijklmnopqrstuvwxyzABCDEFGHIJKLMNOPQRSTUVWXYZ0123456789-")
LENIENT_WORD = WORD | {"_"}
RULE_START = re.compile(r"(?m)^[A-Za-z0-9_-]+[ \t]*::=")


class GErr(Exception):
    def __init__(self, cls, msg):
        super().__init__(msg)
        self.cls = cls


class Grammar:
    def __init__(self):
        self.rules: dict[str, list] = {}  # name -> alternatives; alternative = list of elements
        self.order: list[str] = []
        self.problems: list[tuple[str, str, str]] = []


# element = (kind, payload, (min, max|None))   kind in lit|class|ref|group|any
class _P:
    def __init__(self, src: str):
        self.s = src
        self.i = 0
        self.g = Grammar()
        self.rule = "?"

    def peek(self, k=0):
        j = self.i + k
        return self.s[j] if j < len(self.s) else ""

    def space(self, nl: bool):
        while self.i < len(self.s):
            c = self.s[self.i]
            if c == "#":
                while self.i < len(self.s) and self.s[self.i] not in "\r\n":
                    self.i += 1
            elif c in " \t" or (nl and c in "\r\n"):
                self.i += 1
            else:
                break

    def name(self):
        j = self.i
        while self.i < len(self.s) and self.s[self.i] in LENIENT_WORD:
            self.i += 1
        if self.i == j:
            raise GErr("expecting-name", f"expecting name at {self.s[j:j + 20]!r}")
        nm = self.s[j:self.i]
        if any(ch not in WORD for ch in nm):
            self.g.problems.append(("rule-name-charset", self.rule, f"name {nm!r} has characters outside [a-zA-Z0-9-]"))
        return nm

    def char(self):
        c = self.peek()
        if c == "\\":
            n = self.peek(1)
            if n in ("x", "u", "U"):
                k = {"x": 2, "u": 4, "U": 8}[n]
                h = self.s[self.i + 2:self.i + 2 + k]
                if len(h) < k or any(x not in "0123456789abcdefABCDEF" for x in h):
                    raise GErr("bad-escape", f"bad hex escape {self.s[self.i:self.i + 10]!r}")
                self.i += 2 + k
                return chr(int(h, 16))
            if n in ("t", "r", "n", "\\", '"', "[", "]"):
                self.i += 2
                return {"t": "\t", "r": "\r", "n": "\n"}.get(n, n)
            raise GErr("bad-escape", f"unknown escape {self.s[self.i:self.i + 4]!r}")
        if c == "":
            raise GErr("unterminated", "unexpected end of input")
        self.i += 1
        return c

    def rep(self, seq, nested):
        c = self.peek()
        if c and c in "*+?":
            if not seq:
                raise GErr("dangling-repetition", f"expecting preceding item to {c}")
            k, p, _ = seq[-1]
            seq[-1] = (k, p, {"*": (0, None), "+": (1, None), "?": (0, 1)}[c])
            self.i += 1
            self.space(nested)
            return True
        if c == "{":
            if not seq:
                raise GErr("dangling-repetition", "expecting preceding item to {")
            m = re.compile(r"\{\s*(\d+)\s*(?:(,)\s*(\d*)\s*)?\}").match(self.s, self.i)
            if not m:
                raise GErr("bad-repetition", f"bad repetition {self.s[self.i:self.i + 12]!r}")
            lo = int(m.group(1))
            hi = lo if not m.group(2) else (int(m.group(3)) if m.group(3) else None)
            k, p, _ = seq[-1]
            seq[-1] = (k, p, (lo, hi))
            self.i = m.end()
            self.space(nested)
            return True
        return False

    def seq(self, nested):
        out = []
        while True:
            c = self.peek()
            if c == '"':
                self.i += 1
                chars = []
                while self.peek() != '"':
                    if self.peek() == "":
                        raise GErr("unterminated-literal", "unterminated literal")
                    chars.append(self.char())
                self.i += 1
                out.append(("lit", "".join(chars), (1, 1)))
                self.space(nested)
            elif c == "[":
                self.i += 1
                neg = False
                if self.peek() == "^":
                    self.i += 1
                    neg = True
                ranges = []
                while self.peek() != "]":
                    if self.peek() == "":
                        raise GErr("unterminated-class", "unterminated character class")
                    a = self.char()
                    b = a
                    if self.peek() == "-" and self.peek(1) != "]":
                        self.i += 1
                        if self.peek() == "":
                            raise GErr("unterminated-class", "unterminated character class")
                        b = self.char()
                    ranges.append((a, b))
                self.i += 1
                out.append(("class", (neg, ranges), (1, 1)))
                self.space(nested)
            elif c and c in LENIENT_WORD:
                nm = self.name()
                out.append(("ref", nm, (1, 1)))
                self.space(nested)
            elif c == "(":
                self.i += 1
                self.space(True)
                alts = self.alts(True)
                if self.peek() != ")":
                    raise GErr("unbalanced-paren", f"expecting ')' at {self.s[self.i:self.i + 20]!r}")
                self.i += 1
                out.append(("group", alts, (1, 1)))
                self.space(nested)
            elif c == ".":
                self.i += 1
                out.append(("any", None, (1, 1)))
                self.space(nested)
            elif self.rep(out, nested):
                continue
            else:
                break
        return out

    def alts(self, nested):
        res = [self.seq(nested)]
        while self.peek() == "|":
            self.i += 1
            self.space(True)
            res.append(self.seq(nested))
        for a in res:
            if not a:
                self.g.problems.append(("empty-alt", self.rule, "empty alternative"))
        return res

    def parse(self):
        g = self.g
        self.space(True)
        while self.i < len(self.s):
            start = self.i
            try:
                self.rule = "?"
                nm = self.name()
                self.rule = nm
                self.space(False)
                if self.s[self.i:self.i + 3] != "::=":
                    raise GErr("expecting-assign", f"expecting ::= after {nm!r}: {self.s[self.i:self.i + 20]!r}")
                self.i += 3
                self.space(True)
                alts = self.alts(False)
                if nm in g.rules:
                    g.problems.append(("dup-rule", nm, f"rule {nm!r} defined twice"))
                else:
                    g.order.append(nm)
                g.rules[nm] = alts
                if self.peek() == "\r":
                    self.i += 2 if self.peek(1) == "\n" else 1
                elif self.peek() == "\n":
                    self.i += 1
                elif self.peek() != "":
                    raise GErr("expecting-newline", f"expecting newline or end at {self.s[self.i:self.i + 20]!r}")
                self.space(True)
            except GErr as e:
                g.problems.append((e.cls, self.rule, str(e)))
                m = RULE_START.search(self.s, max(self.i, start + 1))
                # resume at the next line that starts a rule (strictly after the failing position's line start)
                while m and m.start() <= start:
                    m = RULE_START.search(self.s, m.end())
                if not m:
                    break
                self.i = m.start()
        return g


def _refs(alts):
    for a in alts:
        for k, p, _ in a:
            if k == "ref":
                yield p
            elif k == "group":
                yield from _refs(p)


def check(text: str):
    g = _P(text).parse()
    if "root" not in g.rules:
        g.problems.append(("no-root", "root", "rule root is not defined"))
    for nm, alts in g.rules.items():
        for r in _refs(alts):
            if r not in g.rules:
                g.problems.append(("undefined-ref", nm, f"rule {nm!r} references undefined rule {r!r}"))
    # de-duplicate
    seen, out = set(), []
    for p in g.problems:
        if p not in seen:
            seen.add(p)
            out.append(p)
    g.problems = out
    return g, out


# ------------------------------------------------------------------------------------------------ derivations
def class_members(neg, ranges, universe: str) -> list[str]:
    def inside(ch):
        return any(a <= ch <= b for a, b in ranges)
    return [ch for ch in universe if inside(ch) != neg]


def derive(g: Grammar, rule: str, universe: str = "0129azAZ_ .-", max_rep: int = 2, cap: int = 200000, depth: int = 0, ws=("", " ")):
    """All strings derivable from `rule` with every class restricted to `universe`, unbounded repetition cut at max_rep and
    the rule `ws` restricted to the strings in ws. Returns (list of strings, truncated: bool)."""
    trunc = [False]

    def alts(a_list, d):
        out = []
        for a in a_list:
            out.extend(seq(a, d))
            if len(out) > cap:
                trunc[0] = True
                return out[:cap]
        return out

    def elem(k, p, d):
        if k == "lit":
            return [p]
        if k == "class":
            return class_members(p[0], p[1], universe)
        if k == "any":
            return list(universe)
        if k == "group":
            return alts(p, d)
        if k == "ref":
            if p == "ws":
                return list(ws)
            if d > 6 or p not in g.rules:
                trunc[0] = True
                return []
            return alts(g.rules[p], d + 1)
        return []

    def seq(a, d):
        parts = []
        for k, p, (lo, hi) in a:
            base = elem(k, p, d)
            top = hi if hi is not None else max(lo, max_rep)
            if hi is None:
                trunc[0] = trunc[0] or True
            opts = []
            for n in range(lo, top + 1):
                if n == 0:
                    opts.append("")
                else:
                    if len(base) ** n > cap:
                        trunc[0] = True
                        opts.extend("".join(t) for t in itertools.islice(itertools.product(base, repeat=n), cap))
                    else:
                        opts.extend("".join(t) for t in itertools.product(base, repeat=n))
            parts.append(opts)
        total = 1
        for o in parts:
            total *= max(1, len(o))
        if total > cap:
            trunc[0] = True
            return ["".join(t) for t in itertools.islice(itertools.product(*parts), cap)]
        return ["".join(t) for t in itertools.product(*parts)]

    res = alts(g.rules.get(rule, []), depth)
    return res, trunc[0]


def sample(g: Grammar, rule: str, rnd, universe: str = "0129azAZ_ .-", max_rep: int = 3, ws=("", " "), depth: int = 0, stretch: bool = False) -> str | None:
    """One random derivation of `rule` (None if it runs into an undefined rule or too deep recursion).

    stretch=True: every unbounded repetition (`*`, `+`, `{n,}`) is taken exactly max_rep times (long derivations)."""
    def alts(a_list, d):
        if not a_list:
            return None
        return seq(a_list[rnd.randrange(len(a_list))], d)

    def elem(k, p, d):
        if k == "lit":
            return p
        if k == "class":
            m = class_members(p[0], p[1], universe)
            return m[rnd.randrange(len(m))] if m else None
        if k == "any":
            return universe[rnd.randrange(len(universe))]
        if k == "group":
            return alts(p, d)
        if k == "ref":
            if p == "ws":
                return ws[rnd.randrange(len(ws))]
            if d > 8 or p not in g.rules:
                return None
            return alts(g.rules[p], d + 1)
        return None

    def seq(a, d):
        out = []
        for k, p, (lo, hi) in a:
            top = hi if hi is not None else max(lo, max_rep)
            n = top if (stretch and hi is None) else rnd.randint(lo, top)
            for _ in range(n):
                x = elem(k, p, d)
                if x is None:
                    return None
                out.append(x)
        return "".join(out)

    return alts(g.rules.get(rule, []), depth)
